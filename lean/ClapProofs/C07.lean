/-
C07 — Occurrences combine by action: last-wins, append-in-order, saturating count.
One-occurrence theorems about `react` (the function every occurrence goes
through), then the n-fold statement for `Count`.
-/
import ClapModel
import ClapProofs.Lemmas.Matcher
namespace Clap.C07
open Clap Parser

/-! #### decimal rendering of the counter round-trips (finite table, whole `u8` range) -/

theorem digits_roundtrip : ∀ n < 256, Values.digitsVal 0 (natBytes n) = some n := by decide +kernel

/-- the `u8` value parser of a `Count` flag accepts every rendered counter -/
theorem count_parser_isOk : ∀ n < 256,
    ((Values.Ranged.range (Values.Ranged.new false 0 255) (.included 0) (.included 255)).parse (natBytes n)).isOk = true := by
  decide +kernel

theorem count_parser_accepts (n : Nat) (h : n < 256) :
    liftVRes ((Values.Ranged.range (Values.Ranged.new false 0 255) (.included 0) (.included 255)).parse (natBytes n)) = .ok () := by
  have := count_parser_isOk n h
  cases hr : (Values.Ranged.range (Values.Ranged.new false 0 255) (.included 0) (.included 255)).parse (natBytes n) with
  | ok v => rfl
  | err e => rw [hr] at this; simp [Values.VRes.isOk] at this

/-! #### entries are unique per id -/

def cnt (m : ArgMap) (id : Id) : Nat := (m.filter fun p => p.1 == id).length

theorem cnt_remove_other (m : ArgMap) (id id' : Id) (h : (id' == id) = false) : cnt (ArgMap.remove id' m) id = cnt m id := by
  induction m with
  | nil => rfl
  | cons p ps ih =>
    unfold ArgMap.remove
    by_cases hp : (p.1 == id') = true
    · have : p.1 = id' := by simpa using hp
      have hne : (p.1 == id) = false := by rw [this]; exact h
      simp [hp, cnt, hne]
    · have hp' : (p.1 == id') = false := by simpa using hp
      simp only [hp', Bool.false_eq_true, ↓reduceIte]
      unfold cnt at ih ⊢
      simp only [List.filter_cons]
      split <;> simp [ih]

theorem cnt_remove_self (m : ArgMap) (id : Id) : cnt (ArgMap.remove id m) id = cnt m id - 1 := by
  induction m with
  | nil => rfl
  | cons p ps ih =>
    unfold ArgMap.remove
    by_cases hp : (p.1 == id) = true
    · simp [hp, cnt]
    · have hp' : (p.1 == id) = false := by simpa using hp
      simp only [hp', Bool.false_eq_true, ↓reduceIte]
      unfold cnt at ih ⊢
      simp [List.filter_cons, hp', ih]

theorem cnt_remove_le (m : ArgMap) (id id' : Id) : cnt (ArgMap.remove id' m) id ≤ cnt m id := by
  by_cases h : (id' == id) = true
  · have : id' = id := by simpa using h
    subst this; rw [cnt_remove_self]; omega
  · rw [cnt_remove_other _ _ _ (by simpa using h)]; omega

theorem contains_iff_cnt (m : ArgMap) (id : Id) : m.contains id = true ↔ 0 < cnt m id := by
  induction m with
  | nil => simp [ArgMap.contains, cnt]
  | cons p ps ih =>
    unfold ArgMap.contains cnt at ih ⊢
    simp only [List.any_cons, List.filter_cons, Bool.or_eq_true]
    by_cases hp : (p.1 == id) = true
    · simp [hp]
    · have hp' : (p.1 == id) = false := by simpa using hp
      simp only [hp', Bool.false_eq_true, false_or, ↓reduceIte]
      exact ih

theorem cnt_foldl_remove_le (ids : List Id) : ∀ (m : ArgMap) (id : Id),
    cnt (ids.foldl (fun acc o => ArgMap.remove o acc) m) id ≤ cnt m id := by
  induction ids with
  | nil => intro m id; simp
  | cons o os ih =>
    intro m id
    simp only [List.foldl_cons]
    exact Nat.le_trans (ih _ _) (cnt_remove_le _ _ _)

theorem cnt_dropEmptyGroups_le (c : Cmd) (o : Id) (m : ArgMap) (id : Id) : cnt (dropEmptyGroups c o m) id ≤ cnt m id := by
  unfold dropEmptyGroups
  generalize c.groupsForArg o = gs
  induction gs generalizing m with
  | nil => exact Nat.le_refl _
  | cons g gs ih =>
    simp only [List.foldl_cons]
    split
    · exact ih m
    · exact Nat.le_trans (ih _) (cnt_remove_le _ _ _)

theorem cnt_removeOverridden_le (c : Cmd) (m : ArgMap) (o id : Id) : cnt (removeOverridden c m o) id ≤ cnt m id := by
  unfold removeOverridden
  split
  · exact Nat.le_trans (cnt_dropEmptyGroups_le c o _ id) (cnt_remove_le _ _ _)
  · exact Nat.le_refl _

/-- the overridden id itself is gone (when it was there at most once) -/
theorem cnt_removeOverridden_self (c : Cmd) (m : ArgMap) (o : Id) (h : cnt m o ≤ 1) : cnt (removeOverridden c m o) o = 0 := by
  unfold removeOverridden
  split
  · have h1 := cnt_dropEmptyGroups_le c o (ArgMap.remove o m) o
    have h2 := cnt_remove_self m o
    omega
  · next hc =>
    cases hcnt : cnt m o with
    | zero => rfl
    | succ k => exact absurd ((contains_iff_cnt m o).2 (by omega)) hc

theorem cnt_foldl_removeOverridden_le (c : Cmd) (ids : List Id) : ∀ (m : ArgMap) (id : Id),
    cnt (ids.foldl (removeOverridden c) m) id ≤ cnt m id := by
  induction ids with
  | nil => intro m id; simp
  | cons o os ih =>
    intro m id
    simp only [List.foldl_cons]
    exact Nat.le_trans (ih _ _) (cnt_removeOverridden_le c _ _ _)

theorem cnt_removeOverrides_le (c : Cmd) (a : Arg) (m : ArgMap) (id : Id) : cnt (removeOverrides c a m) id ≤ cnt m id := by
  unfold removeOverrides
  exact Nat.le_trans (cnt_foldl_removeOverridden_le c _ _ _) (cnt_foldl_removeOverridden_le c _ _ _)

theorem keys_update (m : ArgMap) (g : Id) (f : MatchedArg → MatchedArg) : (m.update g f).map Prod.fst = m.map Prod.fst := by
  induction m with
  | nil => rfl
  | cons p ps ih =>
    unfold ArgMap.update at ih ⊢
    rw [List.map_cons, List.map_cons, List.map_cons, ih]
    by_cases hp : (p.1 == g) = true
    · rw [if_pos hp]
    · rw [if_neg hp]

theorem cnt_eq_keys (m : ArgMap) (id : Id) : cnt m id = ((m.map Prod.fst).filter (· == id)).length := by
  induction m with
  | nil => rfl
  | cons p ps ih =>
    unfold cnt at ih ⊢
    rw [List.map_cons, List.filter_cons, List.filter_cons]
    by_cases hp : (p.1 == id) = true
    · rw [if_pos hp, if_pos hp, List.length_cons, List.length_cons, ih]
    · rw [if_neg hp, if_neg hp, ih]

theorem cnt_update (m : ArgMap) (g : Id) (f : MatchedArg → MatchedArg) (id : Id) : cnt (m.update g f) id = cnt m id := by
  rw [cnt_eq_keys, cnt_eq_keys, keys_update]

theorem cnt_append (m : ArgMap) (g : Id) (v : MatchedArg) (id : Id) :
    cnt (m ++ [(g, v)]) id = cnt m id + (if (g == id) = true then 1 else 0) := by
  unfold cnt
  simp only [List.filter_append, List.length_append, List.filter_cons, List.filter_nil]
  split <;> simp

theorem cnt_matcherStart_other (m : ArgMap) (g : Id) (fresh : MatchedArg) (s : Source) (id : Id) (h : (g == id) = false) :
    cnt (matcherStart m g fresh s) id = cnt m id := by
  unfold matcherStart
  rw [cnt_update]
  split
  · rfl
  · rw [cnt_append]; simp [h]

theorem get_matcherStart_other (m : ArgMap) (g : Id) (fresh : MatchedArg) (s : Source) (id : Id) (h : (g == id) = false) :
    (matcherStart m g fresh s).get id = m.get id := by
  unfold matcherStart
  rw [ArgMap.get_update_other _ _ _ _ h]
  split
  · rfl
  · rw [ArgMap.get_append_other _ _ _ _ h]

/-- the group loop of `start_custom_arg` does not touch the arg's own entry -/
theorem groupFold_other (a : Arg) (s : Source) (id : Id) : ∀ (gs : List Id) (acc : ArgMap × Bool),
    (∀ g ∈ gs, (g == id) = false) →
    (gs.foldl (groupStep a s) acc).1.get id = acc.1.get id ∧ cnt (gs.foldl (groupStep a s) acc).1 id = cnt acc.1 id := by
  intro gs
  induction gs with
  | nil => intro acc _; exact ⟨rfl, rfl⟩
  | cons g gs ih =>
    intro acc hg
    simp only [List.foldl_cons]
    have hgid := hg g (by simp)
    obtain ⟨i1, i2⟩ := ih (groupStep a s acc g) (fun g' h' => hg g' (by simp [h']))
    rw [i1, i2]
    unfold groupStep
    simp only
    split
    · simp only [ArgMap.get_update_other _ _ _ _ hgid, cnt_update]
      exact ⟨get_matcherStart_other _ _ _ _ _ hgid, cnt_matcherStart_other _ _ _ _ _ hgid⟩
    · exact ⟨get_matcherStart_other _ _ _ _ _ hgid, cnt_matcherStart_other _ _ _ _ _ hgid⟩

/-! #### building blocks: a fresh occurrence -/

/-- the entry `start_custom_arg` creates when the arg is not in the matcher -/
def freshEntry (a : Arg) (s : Source) : MatchedArg := (({ ignoreCase := a.ignoreCase } : MatchedArg).setSource s).newValGroup

theorem groupFold_ok (a : Arg) (s : Source) : ∀ (gs : List Id) (m : ArgMap), (gs.foldl (groupStep a s) (m, true)).2 = true := by
  intro gs
  induction gs with
  | nil => intro m; rfl
  | cons g gs ih =>
    intro m
    simp only [List.foldl_cons]
    obtain ⟨mg, hgget, hgne⟩ := matcherStart_open m g { isGroup := true } s
    obtain ⟨ma', hap, _⟩ := MatchedArg.appendVal_isSome mg a.id hgne
    have : groupStep a s (m, true) g = ((matcherStart m g { isGroup := true } s).update g (fun _ => ma'), true) := by
      simp only [groupStep, hgget, Option.bind_some, hap]
    rw [this]; exact ih _

/-- `start_custom_arg` on a state that does not hold the arg: succeeds, the arg's entry is fresh and unique -/
theorem startCustomArg_fresh (c : Cmd) (a : Arg) (p : P)
    (hng : ∀ g ∈ c.groupsForArg a.id, (g == a.id) = false)
    (habs : cnt (removeOverrides c a p.args) a.id = 0) :
    (startCustomArg c a .cmdline p).2 = .ok () ∧
    (startCustomArg c a .cmdline p).1.args.get a.id = some (freshEntry a .cmdline) ∧
    cnt (startCustomArg c a .cmdline p).1.args a.id = 1 ∧
    (startCustomArg c a .cmdline p).1.curIdx = p.curIdx := by
  have hnc : (removeOverrides c a p.args).contains a.id = false := by
    cases hcc : (removeOverrides c a p.args).contains a.id with
    | false => rfl
    | true => have := (contains_iff_cnt _ _).1 hcc; omega
  have hstart_get : (matcherStart (removeOverrides c a p.args) a.id { ignoreCase := a.ignoreCase } .cmdline).get a.id
      = some (freshEntry a .cmdline) := by
    unfold matcherStart freshEntry
    simp only [hnc, Bool.false_eq_true, ↓reduceIte, ArgMap.get_update_self, ArgMap.get_append_new _ _ _ hnc, Option.map_some]
  have hstart_cnt : cnt (matcherStart (removeOverrides c a p.args) a.id { ignoreCase := a.ignoreCase } .cmdline) a.id = 1 := by
    unfold matcherStart
    simp only [hnc, Bool.false_eq_true, ↓reduceIte, cnt_update, cnt_append, beq_self_eq_true, habs]
  obtain ⟨g1, g2⟩ := groupFold_other a .cmdline a.id (c.groupsForArg a.id)
    (matcherStart (removeOverrides c a p.args) a.id { ignoreCase := a.ignoreCase } .cmdline, true) hng
  have hok := groupFold_ok a .cmdline (c.groupsForArg a.id)
    (matcherStart (removeOverrides c a p.args) a.id { ignoreCase := a.ignoreCase } .cmdline)
  unfold startCustomArg
  have he : Source.cmdline.isExplicit = true := by decide
  simp only [beq_self_eq_true, ↓reduceIte, he, Bool.not_true, Bool.false_eq_true, hok]
  exact ⟨by trivial, by rw [g1, hstart_get], by rw [g2, hstart_cnt], by trivial⟩

/-- pushing one value into a fresh entry -/
theorem pushArgValues_single (a : Arg) (v : Bytes) (p : P) (ma : MatchedArg) (hget : p.args.get a.id = some ma)
    (hraw : ma.rawVals = [[]]) (hpv : parseValue a v = .ok ()) :
    (pushArgValues a [v] p).2 = .ok () ∧
    ∃ ma', (pushArgValues a [v] p).1.args.get a.id = some ma' ∧ ma'.rawVals = [[v]] ∧
      cnt (pushArgValues a [v] p).1.args a.id = cnt p.args a.id := by
  have hap : ma.appendVal v = some { ma with rawVals := [[v]] } := by
    simp [MatchedArg.appendVal, hraw]
  unfold pushArgValues
  simp only [hpv, hget, Option.bind_some, hap, pushArgValues]
  exact ⟨by trivial, _, by simp [ArgMap.get_update_self, hget]; rfl, by simp [MatchedArg.pushIndex], by rw [cnt_update]⟩

/-- pushing values appends all of them, in order, to the open (last) value group -/
theorem pushArgValues_all (a : Arg) : ∀ (vals : List Bytes) (p : P) (ma : MatchedArg) (gs : List (List Bytes)) (g : List Bytes),
    p.args.get a.id = some ma → ma.rawVals = gs ++ [g] → (∀ v ∈ vals, parseValue a v = .ok ()) →
    (pushArgValues a vals p).2 = .ok () ∧
    ∃ ma', (pushArgValues a vals p).1.args.get a.id = some ma' ∧ ma'.rawVals = gs ++ [g ++ vals] ∧
      ma'.source = ma.source ∧ cnt (pushArgValues a vals p).1.args a.id = cnt p.args a.id
  | [], p, ma, gs, g, hget, hraw, _ => by
    simp only [pushArgValues, List.append_nil]
    exact ⟨by trivial, ma, hget, hraw, by trivial, by trivial⟩
  | v :: vs, p, ma, gs, g, hget, hraw, hpv => by
    have hap : ma.appendVal v = some { ma with rawVals := gs ++ [g ++ [v]] } := by
      simp [MatchedArg.appendVal, hraw]
    unfold pushArgValues
    simp only [hpv v (by simp), hget, Option.bind_some, hap]
    obtain ⟨r1, ma', r2, r3, r4, r5⟩ := pushArgValues_all a vs
      { p with curIdx := p.curIdx + 1, args := p.args.update a.id fun _ => ({ ma with rawVals := gs ++ [g ++ [v]] } : MatchedArg).pushIndex (p.curIdx + 1) }
      (({ ma with rawVals := gs ++ [g ++ [v]] } : MatchedArg).pushIndex (p.curIdx + 1)) gs (g ++ [v])
      (by simp [ArgMap.get_update_self, hget]) (by simp [MatchedArg.pushIndex]) (fun v' hv' => hpv v' (by simp [hv']))
    refine ⟨r1, ma', r2, by rw [r3]; simp, by rw [r4]; rfl, by rw [r5, cnt_update]⟩

/-! #### `Count` -/

/-- a well-formed counting flag -/
structure IsCount (c : Cmd) (a : Arg) : Prop where
  action : a.getAction = .count
  noMissing : a.defaultMissing = []
  noDelim : a.delim = none
  vp : a.getVP = .count
  numArgs : a.getNumArgs = Range.empty
  notGroupId : ∀ g ∈ c.groupsForArg a.id, (g == a.id) = false

/-- the state holds count `k` for `a`: absent (k = 0) or one entry whose only value is `k` -/
def Holds (p : P) (a : Arg) (k : Nat) : Prop :=
  cnt p.args a.id ≤ 1 ∧
  ((k = 0 ∧ p.args.contains a.id = false) ∨ (∃ ma, p.args.get a.id = some ma ∧ ma.rawVals = [[natBytes k]]))

/-- **one occurrence of a counting flag**: if the flag stands at `k ≤ 255`, one more
occurrence succeeds and leaves it at `min (k+1) 255` -/
theorem count_step (c : Cmd) (a : Arg) (hc : IsCount c a) (ident : Option Ident) (p : P) (k : Nat) (hk : k ≤ 255)
    (h : Holds p a k) :
    (reactCore c ident .cmdline a [] none p).2 = .ok .valuesDone ∧
    Holds (reactCore c ident .cmdline a [] none p).1 a (min (k + 1) 255) := by
  obtain ⟨hcnt, hval⟩ := h
  -- the next value
  have hnext : countNext p a = min (k + 1) 255 := by
    unfold countNext
    rcases hval with ⟨rfl, hnc⟩ | ⟨ma, hget, hraw⟩
    · have : p.args.get a.id = none := by
        have := ArgMap.contains_iff_get p.args a.id
        rw [hnc] at this
        cases hg : p.args.get a.id with
        | none => rfl
        | some x => rw [hg] at this; simp at this
      simp [this, Gen.countTypeMax]
    · simp [hget, MatchedArg.rawFlat, hraw, digits_roundtrip k (by omega), Gen.countTypeMax]
  have hk' : min (k + 1) 255 < 256 := by omega
  have hv : verifyNumArgs c a ([] : List Bytes).length = .ok () := by
    unfold verifyNumArgs
    split
    · rfl
    · simp [hc.numArgs, Range.empty, Range.numValues, Range.isFixed]
  have hsplit : splitDelim c a [] none = [] := by simp [splitDelim, hc.noDelim]
  have hreact : reactCore c ident .cmdline a [] none p =
      reactFinish c a .cmdline { p with args := ArgMap.remove a.id p.args } [natBytes (min (k + 1) 255)] := by
    unfold reactCore
    simp only [beq_self_eq_true, ↓reduceIte, hv, hc.noMissing, List.isEmpty_nil, Bool.not_true, Bool.and_false,
      Bool.false_eq_true, hc.action, hsplit, hnext]
  rw [hreact]
  -- after the removals the id is absent
  have habs : cnt (removeOverrides c a (ArgMap.remove a.id p.args)) a.id = 0 := by
    have h1 := cnt_removeOverrides_le c a (ArgMap.remove a.id p.args) a.id
    have h2 := cnt_remove_self p.args a.id
    omega
  obtain ⟨s1, s2, s3, _⟩ := startCustomArg_fresh c a { p with args := ArgMap.remove a.id p.args } hc.notGroupId habs
  have hpv : parseValue a (natBytes (min (k + 1) 255)) = .ok () := by
    unfold parseValue; rw [hc.vp]; exact count_parser_accepts _ hk'
  unfold reactFinish
  cases hs : startCustomArg c a .cmdline { p with args := ArgMap.remove a.id p.args } with
  | mk p1 r =>
    rw [hs] at s1 s2 s3
    simp only at s1 s2 s3
    subst s1
    simp only
    obtain ⟨q1, ma', q2, q3, q4⟩ := pushArgValues_single a (natBytes (min (k + 1) 255)) p1 (freshEntry a .cmdline) s2
      (by simp [freshEntry, MatchedArg.newValGroup, MatchedArg.setSource]) hpv
    cases hp : pushArgValues a [natBytes (min (k + 1) 255)] p1 with
    | mk p2 r2 =>
      rw [hp] at q1 q2 q4
      simp only at q1 q2 q4
      subst q1
      exact ⟨rfl, by simp only; omega, Or.inr ⟨ma', q2, q3⟩⟩

/-- `n` occurrences, one after the other -/
def countN (c : Cmd) (a : Arg) (ident : Option Ident) : Nat → P → P
  | 0, p => p
  | n+1, p => countN c a ident n (reactCore c ident .cmdline a [] none p).1

/-- **`Count` yields the number of occurrences, saturating at 255**, for every
number of occurrences (no bound) -/
theorem count_saturates (c : Cmd) (a : Arg) (hc : IsCount c a) (ident : Option Ident) :
    ∀ (n : Nat) (p : P) (k : Nat), k ≤ 255 → Holds p a k → Holds (countN c a ident n p) a (min (k + n) 255) := by
  intro n
  induction n with
  | zero => intro p k hk h; simpa [countN, Nat.min_eq_left hk] using h
  | succ n ih =>
    intro p k hk h
    simp only [countN]
    obtain ⟨_, h'⟩ := count_step c a hc ident p k hk h
    have := ih _ (min (k + 1) 255) (by omega) h'
    have e : min (min (k + 1) 255 + n) 255 = min (k + (n + 1)) 255 := by omega
    rw [e] at this
    exact this

/-- from scratch: after `n` occurrences the flag holds `min n 255` -/
theorem count_from_absent (c : Cmd) (a : Arg) (hc : IsCount c a) (ident : Option Ident) (n : Nat) (p : P)
    (h0 : p.args.contains a.id = false) : Holds (countN c a ident n p) a (min n 255) := by
  have hcnt : cnt p.args a.id ≤ 1 := by
    cases hz : cnt p.args a.id with
    | zero => omega
    | succ m => have := (contains_iff_cnt p.args a.id).2 (by omega); rw [h0] at this; simp at this
  have := count_saturates c a hc ident n p 0 (by omega) ⟨hcnt, Or.inl ⟨rfl, h0⟩⟩
  simpa using this

/-! #### `Set` / `SetTrue` / `SetFalse`: last occurrence wins, or the repeat is a conflict -/

/-- the arg overrides itself (`args_override_self` or `overrides_with(self)`) -/
def SelfOverride (c : Cmd) (a : Arg) : Bool := c.settings.argsOverrideSelf || a.overrides.contains a.id

/-- a repeated `Set`-like occurrence without self-override is rejected as a conflict -/
theorem replace_repeat_conflicts (c : Cmd) (a : Arg) (p : P) (vals : List Bytes)
    (hpresent : p.args.contains a.id = true) (hno : SelfOverride c a = false) :
    (reactReplace c a .cmdline p vals).2 = .error .argumentConflict := by
  unfold SelfOverride at hno
  unfold reactReplace
  simp only [hpresent, hno, Bool.not_false, Bool.and_self, ↓reduceIte]

/-- otherwise the stored values are exactly those of this (the latest) occurrence -/
theorem replace_last_wins (c : Cmd) (a : Arg) (p : P) (vals : List Bytes)
    (hng : ∀ g ∈ c.groupsForArg a.id, (g == a.id) = false) (hcnt : cnt p.args a.id ≤ 1)
    (hok : p.args.contains a.id = false ∨ SelfOverride c a = true)
    (hpv : ∀ v ∈ vals, parseValue a v = .ok ()) :
    (reactReplace c a .cmdline p vals).2 = .ok .valuesDone ∧
    ∃ ma, (reactReplace c a .cmdline p vals).1.args.get a.id = some ma ∧ ma.rawVals = [vals] ∧
      ma.source = some .cmdline ∧ cnt (reactReplace c a .cmdline p vals).1.args a.id = 1 := by
  have hcond : (p.args.contains a.id && !(c.settings.argsOverrideSelf || a.overrides.contains a.id)) = false := by
    rcases hok with h | h
    · rw [h]; rfl
    · unfold SelfOverride at h; rw [h]; simp
  unfold reactReplace
  simp only [hcond, Bool.false_eq_true, ↓reduceIte]
  have habs : cnt (removeOverrides c a (ArgMap.remove a.id p.args)) a.id = 0 := by
    have h1 := cnt_removeOverrides_le c a (ArgMap.remove a.id p.args) a.id
    have h2 := cnt_remove_self p.args a.id
    omega
  obtain ⟨s1, s2, s3, _⟩ := startCustomArg_fresh c a { p with args := ArgMap.remove a.id p.args } hng habs
  unfold reactFinish
  cases hs : startCustomArg c a .cmdline { p with args := ArgMap.remove a.id p.args } with
  | mk p1 r =>
    rw [hs] at s1 s2 s3
    simp only at s1 s2 s3
    subst s1
    simp only
    obtain ⟨q1, ma', q2, q3, q4, q5⟩ := pushArgValues_all a vals p1 (freshEntry a .cmdline) [] [] s2
      (by simp [freshEntry, MatchedArg.newValGroup, MatchedArg.setSource]) hpv
    cases hp : pushArgValues a vals p1 with
    | mk p2 r2 =>
      rw [hp] at q1 q2 q5
      simp only at q1 q2 q5
      subst q1
      exact ⟨rfl, ma', q2, by simpa using q3, by rw [q4]; rfl, by rw [q5, s3]⟩

/-! #### `Append`: one more value group, earlier ones untouched -/

/-- an occurrence of an `Append` arg that is already in the matcher (and does not
override itself) adds exactly one value group holding this occurrence's values -/
theorem append_adds_group (c : Cmd) (a : Arg) (p : P) (vals : List Bytes) (ma : MatchedArg)
    (hng : ∀ g ∈ c.groupsForArg a.id, (g == a.id) = false)
    (hget : (removeOverrides c a p.args).get a.id = some ma)
    (hpv : ∀ v ∈ vals, parseValue a v = .ok ()) :
    (reactFinish c a .cmdline p vals).2 = .ok .valuesDone ∧
    ∃ ma', (reactFinish c a .cmdline p vals).1.args.get a.id = some ma' ∧ ma'.rawVals = ma.rawVals ++ [vals] := by
  -- `start_custom_arg` opens a new group on the existing entry
  have hcont : (removeOverrides c a p.args).contains a.id = true := by
    rw [ArgMap.contains_iff_get, hget]; rfl
  have hstart_get : (matcherStart (removeOverrides c a p.args) a.id { ignoreCase := a.ignoreCase } .cmdline).get a.id
      = some ((ma.setSource .cmdline).newValGroup) := by
    unfold matcherStart
    simp only [hcont, ↓reduceIte, ArgMap.get_update_self, hget, Option.map_some]
  obtain ⟨g1, _⟩ := groupFold_other a .cmdline a.id (c.groupsForArg a.id)
    (matcherStart (removeOverrides c a p.args) a.id { ignoreCase := a.ignoreCase } .cmdline, true) hng
  have hok := groupFold_ok a .cmdline (c.groupsForArg a.id)
    (matcherStart (removeOverrides c a p.args) a.id { ignoreCase := a.ignoreCase } .cmdline)
  have he : Source.cmdline.isExplicit = true := by decide
  have hsc : startCustomArg c a .cmdline p =
      ({ p with args := ((c.groupsForArg a.id).foldl (groupStep a .cmdline)
          (matcherStart (removeOverrides c a p.args) a.id { ignoreCase := a.ignoreCase } .cmdline, true)).1 }, .ok ()) := by
    unfold startCustomArg
    simp only [beq_self_eq_true, ↓reduceIte, he, Bool.not_true, Bool.false_eq_true, hok]
  unfold reactFinish
  rw [hsc]
  simp only
  rw [hstart_get] at g1
  obtain ⟨q1, ma', q2, q3, _, _⟩ := pushArgValues_all a vals
    { p with args := ((c.groupsForArg a.id).foldl (groupStep a .cmdline)
          (matcherStart (removeOverrides c a p.args) a.id { ignoreCase := a.ignoreCase } .cmdline, true)).1 }
    ((ma.setSource .cmdline).newValGroup) ma.rawVals [] g1
    (by simp [MatchedArg.newValGroup, MatchedArg.setSource]) hpv
  cases hp : pushArgValues a vals { p with args := ((c.groupsForArg a.id).foldl (groupStep a .cmdline)
          (matcherStart (removeOverrides c a p.args) a.id { ignoreCase := a.ignoreCase } .cmdline, true)).1 } with
  | mk p2 r2 =>
    rw [hp] at q1 q2
    simp only at q1 q2
    subst q1
    exact ⟨rfl, ma', q2, by simpa using q3⟩

/-! #### overrides are symmetric: whichever of the two is given later removes the other -/

/-- after an occurrence of `a`, nothing that `a` overrides and nothing that overrides `a` is left -/
theorem overrides_removed (c : Cmd) (a : Arg) (m : ArgMap) (o : Id) (hne : (o == a.id) = false)
    (h : a.overrides.contains o = true) (huniq : cnt m o ≤ 1) : (removeOverrides c a m).contains o = false := by
  unfold removeOverrides
  -- the first fold removes `o` (it is in `a.overrides`); later removals cannot bring it back
  have key : ∀ (ids : List Id) (m : ArgMap), ids.contains o = true → cnt m o ≤ 1 →
      cnt (ids.foldl (removeOverridden c) m) o = 0 := by
    intro ids
    induction ids with
    | nil => intro m h; simp at h
    | cons x xs ih =>
      intro m hin hc
      simp only [List.foldl_cons]
      by_cases hx : (x == o) = true
      · have : x = o := by simpa using hx
        subst this
        have h1 := cnt_removeOverridden_self c m x hc
        have h2 := cnt_foldl_removeOverridden_le c xs (removeOverridden c m x) x
        omega
      · have hx' : (x == o) = false := by simpa using hx
        have hin' : xs.contains o = true := by
          simp only [List.contains_cons, Bool.or_eq_true] at hin
          rcases hin with h | h
          · have h2 : o = x := by simpa using h
            rw [h2] at hx'; simp at hx'
          · exact h
        exact ih _ hin' (Nat.le_trans (cnt_removeOverridden_le c m x o) hc)
  have h0 := key a.overrides m h huniq
  have h1 := cnt_foldl_removeOverridden_le c
    (((a.overrides.foldl (removeOverridden c) m).ids).filter fun id => match c.find id with
      | some ov => ov.overrides.contains a.id
      | none => false) (a.overrides.foldl (removeOverridden c) m) o
  simp only at h1 ⊢
  cases hcc : ArgMap.contains (List.foldl (removeOverridden c) (List.foldl (removeOverridden c) m a.overrides)
      (List.filter (fun id => match c.find id with
        | some ov => ov.overrides.contains a.id
        | none => false) (List.foldl (removeOverridden c) m a.overrides).ids)) o with
  | false => rfl
  | true => have := (contains_iff_cnt _ _).1 hcc; omega

/-- non-vacuity: 300 occurrences of `-v` -/
example : natBytes (min 300 255) = [0x32, 0x35, 0x35] := by decide

end Clap.C07
