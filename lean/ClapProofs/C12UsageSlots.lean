/-
C12 — a required positional is written in its own slot: on a level whose positional indices are unique (what
`debug_asserts.rs` asserts), the slot of a requested, non-`last` positional outside every written group holds exactly
that positional's display.
-/
import ClapModel
import ClapProofs.C12Usage
namespace Clap.C12U
open Clap Usage Validator

/-- positional indices are unique on the level -/
def IdxInj (c : Cmd) : Prop := ∀ a ∈ c.args, ∀ b ∈ c.args, ∀ i, a.index = some i → b.index = some i → a = b

/-- `argPass` keeps "slot `i` holds the display of `a`" once it is there, and establishes it when it processes `a` -/
theorem argPass_slot (c : Cmd) (u : UInfo) (inj : IdxInj c) (members : List Id) (r : Bool) (a : Arg) (i : Nat)
    (ha : a ∈ c.args) (hi : a.index = some i) :
    ∀ (reqs : List Id) (opts : List Bytes) (pos : List (Option Bytes)) (opts' : List Bytes) (pos' : List (Option Bytes)),
    argPass c u members r (fun _ => false) reqs opts pos = some (opts', pos') →
    (getSlot pos i = some (stylized u a r) ∨
      (∃ q ∈ reqs, c.find q = some a) ∧ members.contains a.id = false) →
    getSlot pos' i = some (stylized u a r) := by
  intro reqs
  induction reqs with
  | nil =>
    intro opts pos opts' pos' h hs
    simp only [argPass, Option.some.injEq, Prod.mk.injEq] at h
    rw [← h.2]
    rcases hs with hs | ⟨⟨q, hq, _⟩, _⟩
    · exact hs
    · cases hq
  | cons q0 rest ih =>
    intro opts pos opts' pos' h hs
    unfold argPass at h
    split at h
    · next a0 hf0 =>
      have ha0 := C03.find_mem hf0
      split at h
      · next hskip =>
        -- `a0` is a member of a written group: nothing is written
        apply ih opts pos opts' pos' h
        rcases hs with hs | ⟨⟨q, hq, hfq⟩, hm⟩
        · exact Or.inl hs
        · rcases List.mem_cons.mp hq with rfl | hq
          · rw [hf0] at hfq; cases hfq
            rw [hm] at hskip; simp at hskip
          · exact Or.inr ⟨⟨q, hq, hfq⟩, hm⟩
      · split at h
        · next j hj =>
          apply ih opts _ opts' pos' h
          by_cases hij : j = i
          · subst hij
            -- same index: by uniqueness `a0` is `a`
            have : a0 = a := inj a0 ha0.1 a ha j hj hi
            subst this
            left
            exact getSlot_setSlot_same _ _ _
          · rcases hs with hs | ⟨⟨q, hq, hfq⟩, hm⟩
            · left; rw [getSlot_setSlot_ne _ _ _ _ hij]; exact hs
            · rcases List.mem_cons.mp hq with rfl | hq
              · rw [hf0] at hfq; cases hfq
                rw [hj] at hi; cases hi; exact absurd rfl hij
              · exact Or.inr ⟨⟨q, hq, hfq⟩, hm⟩
        · next hnone =>
          apply ih _ pos opts' pos' h
          rcases hs with hs | ⟨⟨q, hq, hfq⟩, hm⟩
          · exact Or.inl hs
          · rcases List.mem_cons.mp hq with rfl | hq
            · rw [hf0] at hfq; cases hfq
              rw [hi] at hnone; cases hnone
            · exact Or.inr ⟨⟨q, hq, hfq⟩, hm⟩
    · next hnf =>
      split at h
      · apply ih opts pos opts' pos' h
        rcases hs with hs | ⟨⟨q, hq, hfq⟩, hm⟩
        · exact Or.inl hs
        · rcases List.mem_cons.mp hq with rfl | hq
          · rw [hnf] at hfq; cases hfq
          · exact Or.inr ⟨⟨q, hq, hfq⟩, hm⟩
      · cases h

/-- `posPass` leaves the slot of a non-`last` positional as it found it when it is filled -/
theorem posPass_keeps (c : Cmd) (u : UInfo) (inj : IdxInj c) (members : List Id) (fo : Bool) (a : Arg) (i : Nat)
    (ha : a ∈ c.args) (hi : a.index = some i) (hl : a.last = false) (s : Bytes) :
    ∀ (ps : List Arg) (pos pos' : List (Option Bytes)), (∀ p ∈ ps, p ∈ c.args) →
    posPass u members fo ps pos = some pos' → getSlot pos i = some s → getSlot pos' i = some s := by
  intro ps
  induction ps with
  | nil => intro pos pos' _ h hs; simp only [posPass, Option.some.injEq] at h; rw [← h]; exact hs
  | cons p rest ih =>
    intro pos pos' hps h hs
    have hrest := fun q hq => hps q (List.mem_cons_of_mem p hq)
    unfold posPass at h
    split at h
    · exact ih pos pos' hrest h hs
    · split at h
      · cases h
      · next j hj =>
        apply ih _ pos' hrest h
        by_cases hij : j = i
        · subst hij
          have : p = a := inj p (hps p List.mem_cons_self) a ha j hj hi
          subst this
          rw [getSlot_setSlot_same]
          simp only [hl, Bool.false_and, Bool.false_eq_true, ↓reduceIte, hs]
        · rw [getSlot_setSlot_ne _ _ _ _ hij]; exact hs

/-- **a requested positional is written in its own slot**: with unique positional indices, a requested positional
that is not `last` has its slot filled with exactly its own display - unless a required group that is itself written
covers it -/
theorem required_positional_listed (c : Cmd) (u : UInfo) (inj : IdxInj c) (required incls : List Id) (fo : Bool)
    (opts groups : List Bytes) (pos : List (Option Bytes)) (h : argParts c u required incls fo = some (opts, groups, pos))
    (q : Id) (hq : q ∈ unrolledReqs c required relevantStatic ++ incls) (a : Arg) (hf : c.find q = some a)
    (i : Nat) (hi : a.index = some i) (hl : a.last = false) :
    getSlot pos i = some (stylized u a (!fo)) ∨
    ∃ g ∈ unrolledReqs c required relevantStatic ++ incls, ∃ l s,
      argsInGroup c g = some l ∧ a.id ∈ l ∧ formatGroup c u g = some s ∧ s ∈ groups := by
  unfold argParts at h
  simp only at h
  split at h
  · cases h
  · next groups0 members hg =>
    split at h
    · cases h
    · next opts0 pos0 ha =>
      split at h
      · cases h
      · next pos1 hpp =>
        simp only [Option.some.injEq, Prod.mk.injEq] at h
        obtain ⟨rfl, rfl, rfl⟩ := h
        have ham := (C03.find_mem hf).1
        cases hm : members.contains a.id with
        | false =>
          left
          have h1 := argPass_slot c u inj members (!fo) a i ham hi _ [] [] opts0 pos0 ha (Or.inr ⟨⟨q, hq, hf⟩, hm⟩)
          exact posPass_keeps c u inj members fo a i ham hi hl _ c.positionals pos0 pos1
            (fun p hp => (positionals_mem c p hp).1) hpp h1
        | true =>
          right
          have hG := groupPass_members c u _ [] [] groups0 members hg
          have hmem : a.id ∈ members := by simpa using hm
          rcases hG.2 a.id hmem with hx | hx
          · cases hx
          · exact hx

/-- non-vacuity: the example level of `C12Usage.lean` (`--out <o>`, a hidden flag, positionals 1 and 2) has unique indices -/
example : IdxInj exCmd := by
  intro a ha b hb i h1 h2
  simp only [exCmd, Cmd.args, List.mem_cons, List.not_mem_nil, or_false] at ha hb
  rcases ha with rfl | rfl | rfl | rfl <;> rcases hb with rfl | rfl | rfl | rfl <;> simp_all <;> omega

end Clap.C12U
