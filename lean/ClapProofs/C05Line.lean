/-
C05 at the level of whole command lines: a prefix of options, flags and single-valued positionals (any spelling the
attribution refinement of C02 covers), then a bare `--`, then ANY tail. The prefix is observed exactly as it is
without the tail - the same `react`s on the same args with the same values - and the tail reaches the last
(multi-valued) positional byte for byte, in order, as one occurrence.
-/
import ClapProofs.C05
import ClapProofs.C02Short
namespace Clap.C05
open Clap Parser Bytes

/-! #### marking the pending entry "trailing from here" does not change how it is resolved -/

theorem splitGo_idx (c : Cmd) (d : Bytes) (n : Nat) : ∀ (vs : List Bytes) (i : Nat), (∀ j, i ≤ j → j < i + vs.length → n ≠ j) →
    splitDelim.go c (some n) d i vs = splitDelim.go c none d i vs
  | [], _, _ => by simp [splitDelim.go]
  | v :: vs, i, h => by
    have hi : n ≠ i := h i (Nat.le_refl _) (by simp)
    have hne : (some n == some i) = false := by simp [hi]
    have ih := splitGo_idx c d n vs (i + 1) (fun j h1 h2 => h j (by omega) (by simp at h2 ⊢; omega))
    simp only [splitDelim.go, hne, Bool.and_false, Bool.or_false, ih]
    simp

theorem splitDelim_len (c : Cmd) (a : Arg) (vals : List Bytes) :
    splitDelim c a vals (some vals.length) = splitDelim c a vals none := by
  unfold splitDelim
  cases a.delim with
  | none => rfl
  | some d =>
    simp only
    cases vals with
    | nil => simp [splitDelim.go]
    | cons v vs =>
      have : (some (v :: vs).length == some 0) = false := by simp
      simp only [this, Bool.and_false, Bool.false_eq_true, ↓reduceIte]
      have h0 : ((none : Option Nat) == some 0) = false := rfl
      simp only [h0, Bool.and_false, Bool.false_eq_true, ↓reduceIte]
      exact splitGo_idx c d _ _ 0 (fun j _ h2 => by simp at h2 ⊢; omega)

theorem reactCore_len (c : Cmd) (ident : Option Ident) (a : Arg) (vals : List Bytes) (p : P) :
    reactCore c ident .cmdline a vals (some vals.length) p = reactCore c ident .cmdline a vals none p := by
  unfold reactCore
  by_cases hm : (vals.isEmpty && !a.defaultMissing.isEmpty) = true
  · simp only [hm, ↓reduceIte]
  · simp only [hm, Bool.false_eq_true, ↓reduceIte, splitDelim_len]

/-- `start_trailing` only stamps the pending entry; resolving it gives the same result -/
theorem resolvePending_startTrailing (c : Cmd) (p : P) (h : ∀ pd, p.pending = some pd → pd.trailingIdx = none) :
    resolvePending c (startTrailing p) = resolvePending c p := by
  unfold startTrailing
  cases hp : p.pending with
  | none => simp [hp]
  | some pd =>
    have ht := h pd hp
    simp only
    unfold resolvePending
    simp only [hp, ht, Option.getD_none]
    cases c.find pd.id with
    | none => rfl
    | some a =>
      simp only
      rw [reactCore_len]

/-! #### `--` when something is still pending for another arg -/

/-- the first token after the escape while another arg's values are pending: they are resolved, then the token opens
the last positional's values -/
theorem trailing_first_other (c : Cmd) (similar : Bytes → Bytes → Bool) (ls : LoopSt) (tok : Bytes) (rest : List Bytes)
    (p : P) (a : Arg) (htr : ls.trailing = true)
    (hpos : c.getPos (correctPosCounter c ls rest.head?) = some a) (hmul : a.isMultiple = true)
    (hterm : isTerminator a tok = false) (pd : Pending) (hpd : p.pending = some pd) (hid : (pd.id != a.id) = true) :
    loop c similar ls (tok :: rest) p =
      match resolvePending c p with
      | (q, .error e) => (q, .error e)
      | (q, .ok ()) =>
        loop c similar { ls with st := .pos a.id, posCounter := correctPosCounter c ls rest.head?, validArgFound := true,
                                 trailing := true } rest
          { q with pending := some { id := a.id, ident := some .index, rawVals := [tok], trailingIdx := some 0 } } := by
  have hne : (some pd.id != some a.id) = true := by simpa using hid
  rw [loop]
  simp only [positionalPart, htr, ↓reduceIte, hpos, Bool.not_true, Bool.and_false, Bool.false_eq_true, hpd, Option.map_some,
    hne, Bool.true_or, hterm]
  cases hr : resolvePending c p with
  | mk q r =>
    cases r with
    | error e => rfl
    | ok u =>
      have hq := C02.resolvePending_ok_pending c p q u hr
      simp [pendingPush, hq, hmul]

/-- **`--` then anything**, in the ground state, with or without values of another arg still pending: what is
pending is resolved as it would have been anyway, and the tokens after the `--` - whatever they are - become exactly
the raw values of the last positional, in order -/
theorem escape_then_tail_any (c : Cmd) (similar : Bytes → Bytes → Bool) (a : Arg) (ls : LoopSt) (p : P)
    (tok : Bytes) (toks : List Bytes)
    (hpos : c.getPos c.positionalCount = some a) (hmul : a.isMultiple = true) (hmv : a.isMultipleValues = true)
    (hterm : a.terminator = none)
    (htr : ls.trailing = false) (hst : ls.st = .valuesDone) (hpc : ls.posCounter = c.positionalCount)
    (hother : ∀ pd, p.pending = some pd → (pd.id != a.id) = true ∧ pd.trailingIdx = none)
    (hsc : possibleSubcommand c [Bytes.dash, Bytes.dash] ls.validArgFound = none) :
    loop c similar ls ([Bytes.dash, Bytes.dash] :: tok :: toks) p =
      match resolvePending c p with
      | (q, .error e) => (q, .error e)
      | (q, .ok ()) =>
        ({ q with pending := some { id := a.id, ident := some .index, rawVals := tok :: toks, trailingIdx := some 0 } },
          .ok .done) := by
  cases hp : p.pending with
  | none =>
    rw [escape_then_tail c similar a ls p tok toks hpos hmul hmv hterm htr hst hpc hp hsc,
      C02.resolvePending_none c p hp]
  | some pd =>
    obtain ⟨hid, htn⟩ := hother pd hp
    rw [escape_sets_trailing c similar ls (tok :: toks) p htr (by simp [hst, hsc]) none (by simp [stateArg, hst]) rfl]
    have hcp := correctPosCounter_last c { ls with trailing := true } toks.head? rfl hpc
    have ht : isTerminator a tok = false := by simp [isTerminator, hterm]
    have hst' : (startTrailing p).pending = some { pd with trailingIdx := some pd.rawVals.length } := by
      simp [startTrailing, hp, htn]
    rw [trailing_first_other c similar _ tok toks (startTrailing p) a rfl (by rw [hcp]; exact hpos) hmul ht _ hst' hid,
      resolvePending_startTrailing c p (fun pd' h => by rw [hp] at h; cases h; exact htn)]
    cases hr : resolvePending c p with
    | mk q r =>
      cases r with
      | error e => rfl
      | ok u =>
        simp only
        cases toks with
        | nil => simp [loop]
        | cons t2 r2 =>
          rw [trailing_tail_collected c similar a hpos hmul hmv hterm (t2 :: r2) _ _
            { id := a.id, ident := some .index, rawVals := [tok], trailingIdx := some 0 } rfl (by simpa using hcp) rfl rfl rfl (by simp)]
          simp

/-! #### the whole line: prefix, `--`, tail -/

/-- what the caller of the loop sees of the tail: one occurrence of the last positional whose values are exactly the
tokens after the `--` (marked as trailing from the first one) -/
def tailOcc (c : Cmd) (a : Arg) (tok : Bytes) (toks : List Bytes) : P → C02.Obs := fun q =>
  match reactCore c (some .index) .cmdline a (tok :: toks) (some 0) q with
  | (_, .error e) => .error e
  | (r, .ok _) => .ok (r, .done)

/-- the pending entry, if any, belongs to another arg than the one that is to receive the tail -/
def NotCollecting (a : Arg) : Option Pending → Prop :=
  fun pend => ∀ pd, pend = some pd → (pd.id != a.id) = true ∧ pd.trailingIdx = none

theorem runAtomsK_factor (c : Cmd) (g : P → C02.Obs) : ∀ (l : List C02.Atom) (pc : Nat) (p : P),
    C02.runAtomsK c l pc p (fun _ q => g q) =
      match C02.runAtomsK c l pc p (fun _ q => .ok (q, .done)) with
      | .error e => .error e
      | .ok (q, _) => g q
  | [], _, _ => rfl
  | .long n v :: rest, pc, p => by
    unfold C02.runAtomsK
    cases findLong c n with
    | none => rfl
    | some a =>
      simp only
      cases react c (some .long) .cmdline a v.toList none p with
      | mk p1 r => cases r with | error e => rfl | ok x => exact runAtomsK_factor c g rest pc p1
  | .short ch v :: rest, pc, p => by
    unfold C02.runAtomsK
    cases c.getShort ch with
    | none => rfl
    | some a =>
      simp only
      cases react c (some .short) .cmdline a v.toList none p with
      | mk p1 r => cases r with | error e => rfl | ok x => exact runAtomsK_factor c g rest pc p1
  | .pos v :: rest, pc, p => by
    unfold C02.runAtomsK
    cases c.getPos pc with
    | none => rfl
    | some a =>
      simp only
      cases react c (some .index) .cmdline a [v] none p with
      | mk p1 r => cases r with | error e => rfl | ok x => exact runAtomsK_factor c g rest (pc + 1) p1

/-- **prefix, `--`, tail** (C05 at the level of whole command lines): on a level whose last positional `a` takes
several values, a prefix of long options, short clusters, flags and values for the single-valued positionals before
`a` (all of them filled), then a bare `--`, then ANY non-empty tail: the prefix is observed as one `react` per spelt
occurrence exactly as without the tail, and the tail becomes one occurrence of `a` whose values are the tail's
tokens, byte for byte and in order - none of them interpreted -/
theorem prefix_escape_tail (c : Cmd) (wf : C01.WF c) (sp : C02.SimplePos c) (pp : C02.PlainPos c)
    (similar : Bytes → Bytes → Bool) (a : Arg)
    (hpos : c.getPos c.positionalCount = some a) (hmul : a.isMultiple = true) (hmv : a.isMultipleValues = true)
    (hterm : a.terminator = none)
    (occs : List C02.Occ3) (ls : LoopSt) (p : P) (tok : Bytes) (toks : List Bytes)
    (hok : C02.okAll3 c occs ls.posCounter) (htr : ls.trailing = false) (hst : ls.st = .valuesDone)
    (hfss : p.flagSubSkip = 0) (hpend : NotCollecting a p.pending)
    (hfilled : C02.pcAfter occs ls.posCounter = c.positionalCount) (hns : C02.NoSubTok c [Bytes.dash, Bytes.dash]) :
    C02.obs c (loop c similar ls (occs.flatMap C02.Occ3.spell ++ [Bytes.dash, Bytes.dash] :: tok :: toks) p) =
      match resolvePending c p with
      | (q, .ok ()) => C02.runAtomsK c (occs.flatMap C02.Occ3.atoms) ls.posCounter q (fun _ q' => tailOcc c a tok toks q')
      | (_, .error e) => .error e := by
  obtain ⟨hfind, hidx⟩ := C01.getPos_spec wf hpos
  have hend : C02.RF c (NotCollecting a)
      (fun p' => C02.obs c (loop c similar (C02.lsAfter ls occs) ([Bytes.dash, Bytes.dash] :: tok :: toks) p'))
      (tailOcc c a tok toks) := by
    intro p' _ hJ
    have h1 : (C02.lsAfter ls occs).trailing = false := htr
    have h2 : (C02.lsAfter ls occs).st = .valuesDone := hst
    have h3 : (C02.lsAfter ls occs).posCounter = c.positionalCount := hfilled
    simp only
    rw [escape_then_tail_any c similar a _ p' tok toks hpos hmul hmv hterm h1 h2 h3 hJ (hns _)]
    cases hr : resolvePending c p' with
    | mk q r =>
      cases r with
      | error e => rfl
      | ok u =>
        have hq := C02.resolvePending_ok_pending c p' q u hr
        have hq' : ({ q with pending := none } : P) = q := by cases q; simp_all
        simp only [C02.obs, resolvePending, hfind, hq', tailOcc]
        cases reactCore c (some .index) .cmdline a (tok :: toks) (some 0) q with
        | mk r1 r2 => cases r2 <;> rfl
  have hJocc : ∀ (a' : Arg) (i : Ident) (v : Bytes), c.find a'.id = some a' → (a'.index = none ∨ C02.SinglePos a') →
      NotCollecting a (some { id := a'.id, ident := some i, rawVals := [v], trailingIdx := none }) := by
    intro a' i v hf' hkind pd hpd
    cases hpd
    refine ⟨?_, rfl⟩
    simp only [bne_iff_ne, ne_eq]
    intro heq
    have : a' = a := by rw [heq, hfind] at hf'; cases hf'; rfl
    subst this
    rcases hkind with h | h
    · rw [hidx] at h; cases h
    · rw [h.1] at hmul; cases hmul
  exact C02.loop_clusters_then c wf sp pp similar _ (NotCollecting a) (by intro pd h; cases h) hJocc occs ls hok htr hst _ hend
    p hfss hpend

/-- **the tail leaves the prefix alone**: the line with `--` and a tail is observed as the line without them,
followed by one occurrence of the last positional that carries exactly the tail - so every flag, option and earlier
positional has exactly the values (and the errors) it has without the tail -/
theorem tail_leaves_prefix (c : Cmd) (wf : C01.WF c) (sp : C02.SimplePos c) (pp : C02.PlainPos c)
    (similar : Bytes → Bytes → Bool) (a : Arg)
    (hpos : c.getPos c.positionalCount = some a) (hmul : a.isMultiple = true) (hmv : a.isMultipleValues = true)
    (hterm : a.terminator = none)
    (occs : List C02.Occ3) (ls : LoopSt) (p : P) (tok : Bytes) (toks : List Bytes)
    (hok : C02.okAll3 c occs ls.posCounter) (htr : ls.trailing = false) (hst : ls.st = .valuesDone)
    (hfss : p.flagSubSkip = 0) (hpend : NotCollecting a p.pending)
    (hfilled : C02.pcAfter occs ls.posCounter = c.positionalCount) (hns : C02.NoSubTok c [Bytes.dash, Bytes.dash]) :
    C02.obs c (loop c similar ls (occs.flatMap C02.Occ3.spell ++ [Bytes.dash, Bytes.dash] :: tok :: toks) p) =
      match C02.obs c (loop c similar ls (occs.flatMap C02.Occ3.spell) p) with
      | .error e => .error e
      | .ok (q, _) => tailOcc c a tok toks q := by
  rw [prefix_escape_tail c wf sp pp similar a hpos hmul hmv hterm occs ls p tok toks hok htr hst hfss hpend hfilled hns,
    C02.loop_clusters c wf sp pp similar occs ls p hok htr hst hfss]
  cases resolvePending c p with
  | mk q r =>
    cases r with
    | error e => rfl
    | ok u =>
      simp only
      rw [runAtomsK_factor, C02.runAtomsK_done]
      rfl

/-- the hypotheses are met by `prog -v --out o -- --help -x ""` on a command with a flag, an option and one
positional taking any number of values -/
example :
    let fv : Arg := { id := [118], short := some [118], action := some .setTrue, numVals := some ⟨0, some 0⟩ }
    let oo : Arg := { id := [111], long := some [111, 117, 116] }
    let a : Arg := { id := [102], index := some 1, numVals := some ⟨1, none⟩ }
    let c : Cmd := .mk [112] [] none none [] [] {} [fv, oo, a] [] []
    let occs : List C02.Occ3 := [.cluster ⟨[[118]], none⟩, .long ⟨[111, 117, 116], some [111], true⟩]
    c.getPos c.positionalCount = some a ∧ a.isMultiple = true ∧ a.isMultipleValues = true ∧ a.terminator = none ∧
      C02.okAll3 c occs 1 ∧ C02.pcAfter occs 1 = c.positionalCount ∧ NotCollecting a (none : Option Pending) ∧
      C02.SimplePos c ∧ C02.PlainPos c := by
  intro fv oo a c occs
  have ns : ∀ tok, C02.NoSubTok c tok := C02.noSubTok_of_no_subs c rfl
  have hO : findLong c [111, 117, 116] = some oo := by decide
  have hcl : C02.COcc.ok c ⟨[[118]], none⟩ := by
    refine ⟨fun tok _ => ns tok, Or.inl (by decide), ?_, by intro ch v k h; cases h⟩
    intro ch hch
    have : ch = [118] := by simpa using hch
    subst this
    exact ⟨by decide, by decide, fv, by decide, by decide⟩
  have hlo : C02.SOcc.ok c ⟨[111, 117, 116], some [111], true⟩ := by
    refine ⟨⟨ns _, by decide, by decide, by decide, oo, hO, by decide⟩, ?_⟩
    intro _ v hv a' ha'
    have hv' : [111] = v := Option.some.inj hv
    subst hv'
    have ha'' : oo = a' := Option.some.inj (hO.symm.trans ha')
    subst ha''
    exact ⟨ns _, ns _, by decide, by decide, by decide, by decide⟩
  have hsp : C02.SimplePos c := by
    refine ⟨rfl, ?_⟩
    intro x hx hp hm
    simp [c, Cmd.args] at hx
    rcases hx with rfl | rfl | rfl
    · exact absurd hp (by decide)
    · exact absurd hp (by decide)
    · decide
  have hpp : C02.PlainPos c := by
    refine ⟨?_⟩
    intro x hx hi
    simp [c, Cmd.args] at hx
    rcases hx with rfl | rfl | rfl
    · exact absurd hi (by decide)
    · exact absurd hi (by decide)
    · exact ⟨by decide, by decide⟩
  exact ⟨by decide, by decide, by decide, by decide, ⟨hcl, hlo, trivial⟩, by decide, (by intro pd h; cases h), hsp, hpp⟩

end Clap.C05
