/-
C12 — Help always renders, lists every visible item and nothing hidden.

The theorems are about the layout model (`ClapModel/HelpLayout.lean`) over the
visibility predicates and the width/padding arithmetic that the translator
re-extracts from `help_template.rs` on every run.
-/
import ClapModel
namespace Clap.C12
open Clap Help Gen

/-! #### sections: every shown arg in exactly its section, hidden ones nowhere -/

theorem mem_membersOf (ul : Bool) (args : List HArg) (k : Kind) (a : HArg) :
    a ∈ membersOf ul args k ↔ a ∈ args ∧ sectionOf a = k ∧ shouldShowArg ul a = true := by
  simp [membersOf, List.mem_filter]

/-- **what a section holds**: exactly the args of that heading that pass `should_show_arg` -/
theorem section_members (ul : Bool) (args : List HArg) (k : Kind) (l : List HArg) (h : (k, l) ∈ sections ul args) (a : HArg) :
    a ∈ l ↔ a ∈ args ∧ sectionOf a = k ∧ shouldShowArg ul a = true := by
  unfold sections at h
  simp only [List.mem_filter, List.mem_map] at h
  obtain ⟨⟨k', _, hk⟩, _⟩ := h
  simp only [Prod.mk.injEq] at hk
  obtain ⟨rfl, rfl⟩ := hk
  exact mem_membersOf ul args k' a

theorem mem_customHeadings_fold (hs : List Bytes) (h : Bytes) : ∀ acc : List Bytes,
    h ∈ hs.foldl (fun acc h => if acc.contains h then acc else acc ++ [h]) acc ↔ h ∈ acc ∨ h ∈ hs := by
  induction hs with
  | nil => simp
  | cons x xs ih =>
    intro acc
    simp only [List.foldl_cons, ih, List.mem_cons]
    split
    · next hc =>
      have : x ∈ acc := by simpa using hc
      constructor
      · rintro (h1 | h1); exact Or.inl h1; exact Or.inr (Or.inr h1)
      · rintro (h1 | h1 | h1); exact Or.inl h1; exact Or.inl (h1 ▸ this); exact Or.inr h1
    · simp only [List.mem_append, List.mem_singleton]
      constructor
      · rintro ((h1 | h1) | h1); exact Or.inl h1; exact Or.inr (Or.inl h1); exact Or.inr (Or.inr h1)
      · rintro (h1 | h1 | h1); exact Or.inl (Or.inl h1); exact Or.inl (Or.inr h1); exact Or.inr h1

theorem mem_customHeadings (args : List HArg) (h : Bytes) : h ∈ customHeadings args ↔ ∃ a ∈ args, a.heading = some h := by
  unfold customHeadings
  rw [mem_customHeadings_fold]
  simp [List.mem_filterMap]

/-- **every arg that is not hidden for this help mode is listed in its section**
(Arguments / Options / its custom heading), for every set of args -/
theorem shown_is_listed (ul : Bool) (args : List HArg) (a : HArg) (ha : a ∈ args) (hs : shouldShowArg ul a = true) :
    ∃ l, (sectionOf a, l) ∈ sections ul args ∧ a ∈ l := by
  refine ⟨membersOf ul args (sectionOf a), ?_, (mem_membersOf ul args _ a).2 ⟨ha, rfl, hs⟩⟩
  unfold sections
  simp only [List.mem_filter, List.mem_map]
  refine ⟨⟨sectionOf a, ?_, rfl⟩, ?_⟩
  · unfold sectionOf
    cases hh : a.heading with
    | none => simp; split <;> simp
    | some h =>
      simp only [List.mem_append, List.mem_map]
      right
      exact ⟨h, (mem_customHeadings args h).2 ⟨a, ha, hh⟩, rfl⟩
  · have : a ∈ membersOf ul args (sectionOf a) := (mem_membersOf ul args _ a).2 ⟨ha, rfl, hs⟩
    cases hm : membersOf ul args (sectionOf a) with
    | nil => rw [hm] at this; simp at this
    | cons _ _ => simp

/-- **an arg hidden for this help mode is in no section** -/
theorem hidden_not_listed (ul : Bool) (args : List HArg) (a : HArg) (hs : shouldShowArg ul a = false) :
    ∀ s ∈ sections ul args, a ∉ s.2 := by
  intro s hsm hmem
  have := (section_members ul args s.1 s.2 hsm a).1 hmem
  simp [hs] at this

/-- `hide(true)` hides in both modes (`next_line_help` does not resurrect it) -/
theorem hide_never_shown (ul : Bool) (a : HArg) (h : a.hide = true) : shouldShowArg ul a = false := by
  simp [shouldShowArg, h]

/-- hidden subcommands are filtered before anything is measured or written -/
theorem hidden_sub_not_shown (sc : HSub) (h : sc.hide = true) : shouldShowSubcommand sc = false := by
  simp [shouldShowSubcommand, h]

/-! #### `longest` dominates every shown member -/

theorem foldl_max_ge_init {α : Type} (f : α → Nat) (l : List α) (m : Nat) : m ≤ l.foldl (fun m a => max m (f a)) m := by
  induction l generalizing m with
  | nil => simp
  | cons x xs ih => simp only [List.foldl_cons]; exact Nat.le_trans (Nat.le_max_left _ _) (ih _)

theorem foldl_max_ge_mem {α : Type} (f : α → Nat) (l : List α) (m : Nat) (a : α) (ha : a ∈ l) :
    f a ≤ l.foldl (fun m a => max m (f a)) m := by
  induction l generalizing m with
  | nil => simp at ha
  | cons x xs ih =>
    simp only [List.foldl_cons]
    rcases List.mem_cons.1 ha with rfl | h
    · exact Nat.le_trans (Nat.le_max_right _ _) (foldl_max_ge_init f xs _)
    · exact ih _ h

theorem longest_ge (ul : Bool) (members : List HArg) (a : HArg) (ha : a ∈ members) (hs : shouldShowArg ul a = true) :
    actualWidth a ≤ longest ul members :=
  foldl_max_ge_mem actualWidth _ _ a (List.mem_filter.2 ⟨ha, hs⟩)

/-! #### padding: every subtraction is defined and the result is bounded -/

/-- **no underflow, no unbounded padding in `align_to_about`**: for every section
(any mix of short-only / long-only flags, counts, options, positionals), every member
shown in this mode, either help mode and either next-line decision, the padding is
defined and at most `longest + TAB_WIDTH + 4`. -/
theorem padding_defined (ul nl : Bool) (members : List HArg) (a : HArg) (ha : a ∈ members)
    (hs : shouldShowArg ul a = true) :
    ∃ n, alignPadding ul nl a (longest ul members) = some n ∧ n ≤ longest ul members + tabWidth + 4 := by
  have hge := longest_ge ul members a ha hs
  unfold alignPadding
  split
  · exact ⟨0, rfl, Nat.zero_le _⟩
  · unfold actualWidth longestFilter at hge
    simp only [widthFilteredPos, widthFilteredOpt, widthUnfiltered, shortSize] at hge
    simp only [alignSelfLenOpt, alignPadLong, alignPadShortOnly, alignSelfLenPos, alignPadPos, tabWidth, shortSize, checkedSub]
    cases hl : a.long <;> cases hsh : a.short <;> cases htv : a.takesValue <;>
      simp only [hl, hsh, htv, HArg.isPositional, Option.isSome_none, Option.isSome_some, Option.isNone_none,
        Option.isNone_some, Bool.or_self, Bool.or_true, Bool.or_false, Bool.and_self, Bool.and_true,
        Bool.and_false, Bool.not_true, Bool.not_false, ↓reduceIte, Bool.false_eq_true] at hge ⊢ <;>
      exact ⟨_, if_pos (by omega), by omega⟩

theorem subLongest_ge (subs : List HSub) (sc : HSub) (h : sc ∈ subs) (hs : shouldShowSubcommand sc = true) :
    (subDisplay sc).length ≤ subLongest subs :=
  foldl_max_ge_mem (fun sc => (subDisplay sc).length) _ _ sc (List.mem_filter.2 ⟨h, hs⟩)

/-- the same for the subcommand column (`subcmd`) -/
theorem subcmd_padding_defined (nl : Bool) (subs : List HSub) (sc : HSub) (h : sc ∈ subs)
    (hs : shouldShowSubcommand sc = true) :
    ∃ n, subcmdPadding nl sc (subLongest subs) = some n ∧ n ≤ subLongest subs + tabWidth := by
  have hge := subLongest_ge subs sc h hs
  unfold subcmdPadding
  split
  · exact ⟨0, rfl, Nat.zero_le _⟩
  · simp only [subcmdPad, tabWidth, checkedSub]
    exact ⟨_, if_pos (by omega), by omega⟩

/-- the next-line decision never subtracts below zero: `term_w - taken` is only evaluated under `term_w >= taken` -/
theorem forceNextLine_guarded (w hW taken : Nat) (h : forceNextLine (some w) hW taken = true) : taken ≤ w := by
  simp [forceNextLine] at h; exact h.1.1

/-! #### the possible-values column of long help -/

/-- **the `expect("Only called with possible value")` cannot fail and the name padding is
defined**: the column is written only when some visible value has help, and then every
visible value's `longest - display_width(name)` is defined (for any display widths) -/
theorem pv_padding_defined (a : HArg) (h : useLongPv true a = true) :
    (pvLongest a).isSome = true ∧ ∀ pv ∈ a.pvs, pv.hide = false → (pvPadding a pv).isSome = true := by
  have hne : a.pvs.filter (!·.hide) ≠ [] := by
    simp only [useLongPv, Bool.true_and, List.any_eq_true] at h
    obtain ⟨pv, hpv, hv⟩ := h
    have : pv ∈ a.pvs.filter (!·.hide) := List.mem_filter.2 ⟨hpv, by simp at hv; simp [hv.1]⟩
    intro he; rw [he] at this; simp at this
  constructor
  · unfold pvLongest; split
    · next he => exact absurd he hne
    · rfl
  · intro pv hpv hh
    have hm : pv ∈ a.pvs.filter (!·.hide) := List.mem_filter.2 ⟨hpv, by simp [hh]⟩
    unfold pvPadding pvLongest
    cases he : a.pvs.filter (!·.hide) with
    | nil => exact absurd he hne
    | cons n ns =>
      simp only [checkedSub]
      rw [he] at hm
      have : pv.w ≤ ns.foldl (fun m x => max m x.w) n.w := by
        rcases List.mem_cons.1 hm with h1 | h1
        · rw [h1]; exact foldl_max_ge_init _ _ _
        · exact foldl_max_ge_mem (fun (x : PV) => x.w) ns _ pv h1
      simp [this]

/-- a hidden possible value is not among the names written inline or in the column -/
theorem hidden_pv_not_listed (a : HArg) (n : Bytes) (h : n ∈ visiblePvNames a) : ∃ pv ∈ a.pvs, pv.hide = false ∧ pv.name = n := by
  simp only [visiblePvNames, List.mem_map, List.mem_filter] at h
  obtain ⟨pv, ⟨hm, hh⟩, rfl⟩ := h
  exact ⟨pv, hm, by simpa using hh, rfl⟩

/-! #### the left column names the arg -/

/-- **a listed arg shows its long flag** -/
theorem leftColumn_has_long (a : HArg) (l : Bytes) (h : a.long = some l) : ([45, 45] ++ l) <:+: leftColumn a := by
  unfold leftColumn longPart
  simp only [h]
  exact ⟨sp tabWidth ++ shortPart a ++ (if a.short.isSome then [44, 32] else []), argSuffix a, by simp [List.append_assoc]⟩

/-- **a listed arg shows its short flag** -/
theorem leftColumn_has_short (a : HArg) (s : Bytes) (h : a.short = some s) : (45 :: s) <:+: leftColumn a := by
  unfold leftColumn shortPart
  simp only [h]
  exact ⟨sp tabWidth, longPart a ++ argSuffix a, by simp [List.append_assoc]⟩

theorem infix_intercalate (sep : Bytes) (xs : List Bytes) (x : Bytes) (h : x ∈ xs) : x <:+: intercalateB sep xs := by
  induction xs with
  | nil => simp at h
  | cons y ys ih =>
    cases ys with
    | nil => simp at h; subst h; simp [intercalateB]
    | cons z zs =>
      simp only [intercalateB]
      rcases List.mem_cons.1 h with rfl | h1
      · exact ⟨[], sep ++ intercalateB sep (z :: zs), by simp⟩
      · obtain ⟨p, q, hpq⟩ := ih h1
        exact ⟨y ++ sep ++ p, q, by rw [← hpq]; simp [List.append_assoc]⟩

/-- **a positional or value-taking arg shows each of its value names** (bracketed as `<N>` or `[N]`) -/
theorem leftColumn_has_valname (a : HArg) (n : Bytes) (hv : a.takesValue = true ∨ a.isPositional = true)
    (hn : n ∈ valNamesShown a) : bracket a a.required n <:+: leftColumn a := by
  have h1 : bracket a a.required n <:+: renderArgVal a a.required := by
    unfold renderArgVal
    obtain ⟨p, q, hpq⟩ := infix_intercalate [32] ((valNamesShown a).map (bracket a a.required)) _ (List.mem_map_of_mem hn)
    exact ⟨p, q ++ _, by rw [← List.append_assoc, hpq]⟩
  have h2 : renderArgVal a a.required <:+: argSuffix a := by
    unfold argSuffix
    have : (a.takesValue || a.isPositional) = true := by rcases hv with h | h <;> simp [h]
    simp only [this, ↓reduceIte]
    exact ⟨_, _, rfl⟩
  have h3 : argSuffix a <:+: leftColumn a := ⟨sp tabWidth ++ shortPart a ++ longPart a, [], by simp [leftColumn]⟩
  exact List.IsInfix.trans (List.IsInfix.trans h1 h2) h3

/-- the names shown are never an empty list: there is always something to identify the arg by -/
theorem valNamesShown_ne_nil (a : HArg) : valNamesShown a ≠ [] := by
  have hrep : ∀ n : Bytes, List.replicate (max a.minVals 1) n ≠ [] := by
    intro n h; have := congrArg List.length h; simp at this
  unfold valNamesShown
  by_cases he : a.valNames.isEmpty = true
  · simp only [he, ↓reduceIte]; exact hrep _
  · simp only [he]
    cases hv : a.valNames with
    | nil => simp [hv] at he
    | cons x xs =>
      cases xs with
      | nil => simp
      | cons y ys => simp

/-! #### non-vacuity and the historical failure -/

/-- a section holding only `-v` with `ArgAction::Count` (display `-v...`): the padding is defined
(F4: before the `else` branch in `write_args` this subtraction underflowed) -/
def countOnly : HArg := { id := [118], short := some [118], isCount := true }
example : shouldShowArg false countOnly = true ∧ alignPadding false false countOnly (longest false [countOnly]) = some 2 := by decide

/-- what the arithmetic was before the fix (no `else` branch: a short-only flag left `longest` at 2) underflows -/
example : checkedSub (longestInit + alignPadShortOnly) (alignSelfLenOpt countOnly) = none := by decide

end Clap.C12
