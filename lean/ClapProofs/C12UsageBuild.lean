/-
C12 — the usage line renders for every level AS THE USER WROTE IT: `_build_self` establishes `UsageOk`
(`ClapProofs/C12Usage.lean`) from what the configuration checks assert about the definition, so
`renderUsage_isSome` needs no hypothesis about built state.
-/
import ClapModel
import ClapProofs.C01Build
import ClapProofs.C12Usage
namespace Clap.C12U
open Clap Usage Validator Build C01

/-- the `requires` targets of args and groups exist, as the user wrote the level (`debug_asserts.rs`:
"Argument or group … specified in 'requires*' … does not exist") -/
structure UserRefsOk (c : Cmd) : Prop where
  argRefs : ∀ a ∈ c.args, ∀ p ∈ a.requires, (∃ a' ∈ c.args, a'.id = p.2) ∨ (∃ g ∈ c.groups, g.id = p.2)
  groupRefs : ∀ g ∈ c.groups, ∀ r ∈ g.requires, (∃ a' ∈ c.args, a'.id = r) ∨ (∃ g' ∈ c.groups, g'.id = r)

theorem buildArg_requires (a : Arg) : (buildArg a).requires = a.requires := rfl
theorem buildArg_isPositional (a : Arg) : (buildArg a).isPositional = a.isPositional := rfl

theorem cmdLevelArg_more (st : LevelSwitches) (a : Arg) :
    (cmdLevelArg st a).requires = a.requires ∧ (cmdLevelArg st a).isPositional = a.isPositional := by
  unfold cmdLevelArg
  simp only
  split <;> simp [Arg.isPositional]

theorem addToGroups_requires (argId : Id) : ∀ (gl : List Id) (groups : List Group),
    ∀ g' ∈ addToGroups groups argId gl, g'.requires = [] ∨ ∃ g ∈ groups, g.id = g'.id ∧ g'.requires = g.requires := by
  intro gl
  induction gl with
  | nil => intro groups g' hg'; exact Or.inr ⟨g', hg', rfl, rfl⟩
  | cons x xs ih =>
    intro groups g' hg'
    unfold addToGroups at hg'
    simp only at hg'
    split at hg'
    · rcases ih _ g' hg' with h | ⟨g, hg, hid, hr⟩
      · exact Or.inl h
      · obtain ⟨g0, hg0, rfl⟩ := List.mem_map.1 hg
        right
        refine ⟨g0, hg0, ?_, ?_⟩
        · rw [← hid]; split <;> rfl
        · rw [hr]; split <;> rfl
    · rcases ih _ g' hg' with h | ⟨g, hg, hid, hr⟩
      · exact Or.inl h
      · rcases List.mem_append.1 hg with hg | hg
        · exact Or.inr ⟨g, hg, hid, hr⟩
        · simp only [List.mem_singleton] at hg
          subst hg
          exact Or.inl hr

/-- the per-arg loop keeps `requires` and positional-ness, gives every positional an index, and creates groups
without `requires` only -/
theorem buildArgs_more : ∀ (as : List Arg) (pc : Nat) (gs : List Group),
    (∀ b ∈ (buildArgs as pc gs).1, ∃ a ∈ as, b.id = a.id ∧ b.requires = a.requires) ∧
    (∀ b ∈ (buildArgs as pc gs).1, b.isPositional = true → b.index.isSome = true) ∧
    (∀ g' ∈ (buildArgs as pc gs).2, g'.requires = [] ∨ ∃ g ∈ gs, g.id = g'.id ∧ g'.requires = g.requires) := by
  intro as
  induction as with
  | nil =>
    intro pc gs
    simp only [buildArgs]
    refine ⟨?_, ?_, fun g' hg' => Or.inr ⟨g', hg', rfl, rfl⟩⟩
    · intro b hb; cases hb
    · intro b hb; cases hb
  | cons a as ih =>
    intro pc gs
    have hG := addToGroups_requires a.id a.groups gs
    unfold buildArgs
    simp only
    generalize hgen : (if ((buildArg a).isPositional && (buildArg a).index.isNone) = true
        then ({ buildArg a with index := some pc }, pc + 1) else (buildArg a, pc)) = r
    obtain ⟨a2, pc2⟩ := r
    have ha2 : a2.id = a.id ∧ a2.requires = a.requires ∧ (a2.isPositional = true → a2.index.isSome = true) := by
      split at hgen
      · have : a2 = { buildArg a with index := some pc } := by simpa using (congrArg Prod.fst hgen).symm
        subst this
        exact ⟨rfl, rfl, fun _ => rfl⟩
      · next hc =>
        have : a2 = buildArg a := by simpa using (congrArg Prod.fst hgen).symm
        subst this
        refine ⟨rfl, rfl, ?_⟩
        intro hp
        cases hi : (buildArg a).index with
        | some i => rfl
        | none => simp [hp, hi] at hc
    obtain ⟨i1, i2, i3⟩ := ih pc2 (addToGroups gs a.id a.groups)
    generalize buildArgs as pc2 (addToGroups gs a.id a.groups) = rr at i1 i2 i3
    obtain ⟨rest, gs2⟩ := rr
    simp only at i1 i2 i3 ⊢
    refine ⟨?_, ?_, ?_⟩
    · intro b hb
      rcases List.mem_cons.1 hb with rfl | hb'
      · exact ⟨a, List.mem_cons_self, ha2.1, ha2.2.1⟩
      · obtain ⟨a', ha', h'⟩ := i1 b hb'
        exact ⟨a', List.mem_cons_of_mem _ ha', h'⟩
    · intro b hb
      rcases List.mem_cons.1 hb with rfl | hb'
      · exact ha2.2.2
      · exact i2 b hb'
    · intro g' hg'
      rcases i3 g' hg' with h | ⟨g1, hg1, hid, hr⟩
      · exact Or.inl h
      · rcases hG g1 hg1 with h | ⟨g0, hg0, hid0, hr0⟩
        · exact Or.inl (hr.trans h)
        · exact Or.inr ⟨g0, hg0, by rw [hid0, hid], by rw [hr, hr0]⟩

/-- **one level of `_build_self` makes the level fit for `usage.rs`** -/
theorem buildSelfCore_usageOk (c : Cmd) (h : UserLevelOk c) (hr : UserRefsOk c) : UsageOk (buildSelfCore c) := by
  obtain ⟨hwf, hgroups⟩ := buildSelfCore_level c h
  obtain ⟨st, hA⟩ := buildSelfCore_args c
  have hG := buildSelfCore_groups c
  obtain ⟨j1, j2, j3, _⟩ := buildArgs_spec (args2 c) 1 c.groups
  obtain ⟨k1, k2, k3⟩ := buildArgs_more (args2 c) 1 c.groups
  have hids : (buildSelfCore c).args.map (·.id) = (args2 c).map (·.id) := by
    rw [hA, List.map_map, ← j1]
    apply List.map_congr_left
    intro a _
    exact (cmdLevelArg_fields st a).1
  -- an id of the user's level is still an arg / a group id after the build
  have argStays : ∀ a' ∈ c.args, ((buildSelfCore c).find a'.id).isSome = true := fun a' ha' =>
    find_isSome_of_id (by rw [hids]; exact List.mem_map_of_mem (args2_sub c a' ha'))
  have groupStays : ∀ g ∈ c.groups, ((buildSelfCore c).findGroup g.id).isSome = true := fun g hg => by
    obtain ⟨g1, hg1, hid1⟩ := j3 g hg
    exact findGroup_isSome_of_id ⟨g1, by rw [hG]; exact hg1, hid1⟩
  refine ⟨hgroups, ⟨?_, ?_⟩, ?_⟩
  · intro b hb p hp
    rw [hA] at hb
    obtain ⟨b0, hb0, rfl⟩ := List.mem_map.1 hb
    rw [(cmdLevelArg_more st b0).1] at hp
    obtain ⟨a, ha, _, hreq⟩ := k1 b0 hb0
    rw [hreq] at hp
    rcases args2_mem c a ha with h2 | h2 | h2
    · rcases hr.argRefs a h2 p hp with ⟨a', ha', hid⟩ | ⟨g, hg, hid⟩
      · exact Or.inl (hid ▸ argStays a' ha')
      · exact Or.inr (hid ▸ groupStays g hg)
    · subst h2; simp [helpArg] at hp
    · subst h2; simp [versionArg] at hp
  · intro g' hg' r hrq
    rw [hG] at hg'
    rcases k3 g' hg' with h0 | ⟨g, hg, _, hreq⟩
    · rw [h0] at hrq; cases hrq
    · rw [hreq] at hrq
      rcases hr.groupRefs g hg r hrq with ⟨a', ha', hid⟩ | ⟨g0, hg0, hid⟩
      · exact Or.inl (hid ▸ argStays a' ha')
      · exact Or.inr (hid ▸ groupStays g0 hg0)
  · intro p hp
    obtain ⟨hpa, hpos⟩ := positionals_mem _ p hp
    rw [hA] at hpa
    obtain ⟨b0, hb0, rfl⟩ := List.mem_map.1 hpa
    rw [(cmdLevelArg_more st b0).2] at hpos
    rw [(cmdLevelArg_fields st b0).2.2.2.2]
    exact k2 b0 hb0 hpos

/-- **the usage line of a freshly built level always renders**: for a level as the user wrote it - unique ids, none
called `help`/`version`, indices only on positionals, group members and `requires` targets that exist - `render_usage()`
(which builds the level first) reaches no `unwrap` / `expect` / `debug_assert!` of `usage.rs` -/
theorem renderUsage_total_user (c : Cmd) (u : UInfo) (h : UserLevelOk c) (hr : UserRefsOk c) :
    (renderUsage (buildSelfCore c) u).isSome = true :=
  renderUsage_isSome _ u (buildSelfCore_usageOk c h hr)

/-! non-vacuity: a level as a user writes it (`--out <o>` required and requiring the group `g`, whose member is the
positional `i`) meets both hypotheses -/
def exUser : Cmd :=
  Cmd.mk [112] [] none none [] [] {}
    [ { id := [111], long := some [111, 117, 116], required := true, requires := [(.isPresent, [103])] },
      { id := [105] } ]
    [ { id := [103], args := [[105]], requires := [[111]] } ] []

example : UserLevelOk exUser := ⟨by decide, by decide, by decide, by decide, by decide⟩
example : UserRefsOk exUser := ⟨by decide, by decide⟩
example : (renderUsage (buildSelfCore exUser) { usageName := [112] }).isSome = true :=
  renderUsage_total_user exUser _ ⟨by decide, by decide, by decide, by decide, by decide⟩ ⟨by decide, by decide⟩

end Clap.C12U
