/-
C01 — the validator never panics: the `expect`s on groups in `gather_conflicts`, `is_missing_required_ok`,
`unroll_args_in_group` and `gather_arg_direct_conflicts` are dead for every command level whose groups name
only args and groups of that level (clap's own build assertion), and every matcher state.
-/
import ClapProofs.C01
import ClapModel.Validator
namespace Clap.C01
open Clap Parser Validator

theorem findGroup_mem {c : Cmd} {g : Group} (h : g ∈ c.groups) : (c.findGroup g.id).isSome = true := by
  unfold Cmd.findGroup
  rw [List.find?_isSome]
  exact ⟨g, h, by simp⟩

theorem groupsForArg_found {c : Cmd} {id g : Id} (h : g ∈ c.groupsForArg id) : (c.findGroup g).isSome = true := by
  unfold Cmd.groupsForArg at h
  obtain ⟨grp, hg, rfl⟩ := List.mem_map.1 h
  exact findGroup_mem (List.mem_filter.1 hg).1

theorem groupConflictFold_some (c : Cmd) (aid : Id) : ∀ (gids : List Id) (l : List Id),
    (∀ g ∈ gids, (c.findGroup g).isSome = true) → (gids.foldl (groupConflictStep c aid) (some l)).isSome = true
  | [], l, _ => rfl
  | g :: gs, l, h => by
    simp only [List.foldl_cons]
    have hg := h g List.mem_cons_self
    cases hf : c.findGroup g with
    | none => rw [hf] at hg; simp at hg
    | some grp =>
      simp only [groupConflictStep, hf]
      exact groupConflictFold_some c aid gs _ (fun g' hg' => h g' (List.mem_cons_of_mem _ hg'))

theorem gatherDirectConflicts_isSome (c : Cmd) (id : Id) : (gatherDirectConflicts c id).isSome = true := by
  unfold gatherDirectConflicts
  split
  · next a _ =>
    unfold argDirectConflicts
    have := groupConflictFold_some c a.id (c.groupsForArg a.id) a.blacklist (fun g hg => groupsForArg_found hg)
    cases hf : (c.groupsForArg a.id).foldl (groupConflictStep c a.id) (some a.blacklist) with
    | none => rw [hf] at this; simp at this
    | some l => simp
  · split <;> rfl

theorem mapM_isSome' {α β} (f : α → Option β) (l : List α) (h : ∀ x ∈ l, (f x).isSome = true) : (l.mapM f).isSome = true := by
  induction l with
  | nil => simp
  | cons a r ih =>
    rw [List.mapM_cons]
    have ha := h a List.mem_cons_self
    have hr := ih (fun x hx => h x (List.mem_cons_of_mem _ hx))
    cases hfa : f a with
    | none => simp [hfa] at ha
    | some da =>
      cases hmr : r.mapM f with
      | none => simp [hmr] at hr
      | some dr => simp

theorem potential_isSome (c : Cmd) (m : ArgMap) : (potential c m).isSome = true := by
  unfold potential
  apply mapM_isSome'
  intro x _
  have := gatherDirectConflicts_isSome c x.1
  cases hf : gatherDirectConflicts c x.1 with
  | none => rw [hf] at this; simp at this
  | some l => simp

theorem gatherConflicts_isSome (c : Cmd) (pot : List (Id × List Id)) (id : Id) : (gatherConflicts c pot id).isSome = true := by
  unfold gatherConflicts
  simp only
  split
  · simp
  · have := gatherDirectConflicts_isSome c id
    cases hf : gatherDirectConflicts c id with
    | none => rw [hf] at this; simp at this
    | some l => simp

theorem validateConflicts_go_no_panic (c : Cmd) (pot : List (Id × List Id)) : ∀ (ids : List Id) (e : EK),
    validateConflicts.go c pot ids = .error e → isPanic e = false
  | [], e, h => by simp [validateConflicts.go] at h
  | id :: ids, e, h => by
    unfold validateConflicts.go at h
    have := gatherConflicts_isSome c pot id
    cases hg : gatherConflicts c pot id with
    | none => rw [hg] at this; simp at this
    | some l =>
      rw [hg] at h
      cases l with
      | nil => exact validateConflicts_go_no_panic c pot ids e h
      | cons x xs => simp at h; subst h; rfl

theorem validateConflicts_no_panic (c : Cmd) (m : ArgMap) (pot : List (Id × List Id)) (e : EK)
    (h : validateConflicts c m pot = .error e) : isPanic e = false := by
  unfold validateConflicts at h
  split at h
  · next e' he =>
    simp at h; subst h
    unfold validateExclusive at he
    simp only at he
    split at he
    · simp at he
    · split at he
      · simp at he; subst he; rfl
      · simp at he
  · exact validateConflicts_go_no_panic c pot _ e h

theorem isMissingRequiredOk_isSome (c : Cmd) (pot : List (Id × List Id)) (a : Arg) : (isMissingRequiredOk c pot a).isSome = true := by
  unfold isMissingRequiredOk
  have h0 := gatherConflicts_isSome c pot a.id
  cases hg : gatherConflicts c pot a.id with
  | none => rw [hg] at h0; simp at h0
  | some l =>
    cases l with
    | cons x xs => simp
    | nil =>
      simp only
      have key : ∀ (gs : List Id) (acc : Option Bool), acc.isSome = true →
          (gs.foldl (fun (acc : Option Bool) g =>
            match acc, gatherConflicts c pot g with
            | some true, _ => some true
            | some false, some (_ :: _) => some true
            | some false, some [] => some false
            | _, _ => none) acc).isSome = true := by
        intro gs
        induction gs with
        | nil => intro acc h; exact h
        | cons g gs ih =>
          intro acc h
          simp only [List.foldl_cons]
          apply ih
          have hgc := gatherConflicts_isSome c pot g
          cases acc with
          | none => simp at h
          | some b =>
            cases b with
            | true => rfl
            | false =>
              cases hgg : gatherConflicts c pot g with
              | none => rw [hgg] at hgc; simp at hgc
              | some l' => cases l' <;> rfl
      exact key _ _ rfl

/-- every member of a group is an arg or a group of the level -/
def GroupsOk (c : Cmd) : Prop := ∀ g ∈ c.groups, ∀ n ∈ g.args, (c.find n).isSome = true ∨ (c.findGroup n).isSome = true

theorem findGroup_mem_of {c : Cmd} {id : Id} {g : Group} (h : c.findGroup id = some g) : g ∈ c.groups :=
  List.mem_of_find?_eq_some h

theorem unrollArgsInGroup_isSome (c : Cmd) (wg : GroupsOk c) : ∀ (fuel : Nat) (gvec args : List Id),
    (∀ g ∈ gvec, (c.findGroup g).isSome = true) → (unrollArgsInGroup c fuel gvec args).isSome = true := by
  intro fuel
  induction fuel with
  | zero => intro gvec args _; cases gvec <;> rfl
  | succ fuel ih =>
    intro gvec args h
    cases gvec with
    | nil => rfl
    | cons g gs =>
      unfold unrollArgsInGroup
      have hg := h g List.mem_cons_self
      cases hf : c.findGroup g with
      | none => rw [hf] at hg; simp at hg
      | some grp =>
        simp only
        have hmem := findGroup_mem_of hf
        -- everything pushed is a non-arg member of the group, hence a group
        have key : ∀ (ns : List Id) (acc : List Id × List Id), (∀ n ∈ ns, n ∈ grp.args) →
            (∀ x ∈ acc.2, (c.findGroup x).isSome = true) →
            ∀ x ∈ (ns.foldl (fun (acc : List Id × List Id) n =>
              if acc.1.contains n then acc
              else if (c.find n).isSome then (acc.1 ++ [n], acc.2)
              else (acc.1, n :: acc.2)) acc).2, (c.findGroup x).isSome = true := by
          intro ns
          induction ns with
          | nil => intro acc _ h2; exact h2
          | cons n ns ihn =>
            intro acc h1 h2
            simp only [List.foldl_cons]
            apply ihn _ (fun n' hn' => h1 n' (List.mem_cons_of_mem _ hn'))
            split
            · exact h2
            · split
              · exact h2
              · next hnf =>
                intro x hx
                rcases List.mem_cons.1 hx with rfl | hx'
                · rcases wg grp hmem x (h1 x List.mem_cons_self) with h3 | h3
                  · exact absurd h3 hnf
                  · exact h3
                · exact h2 x hx'
        have hpushed := key grp.args (args, []) (fun n hn => hn) (by intro x hx; cases hx)
        generalize grp.args.foldl (fun (acc : List Id × List Id) n =>
              if acc.1.contains n then acc
              else if (c.find n).isSome then (acc.1 ++ [n], acc.2)
              else (acc.1, n :: acc.2)) (args, []) = res at hpushed
        obtain ⟨args', pushed⟩ := res
        simp only
        apply ih
        intro x hx
        rcases List.mem_append.1 hx with hx | hx
        · exact hpushed x hx
        · exact h x (List.mem_cons_of_mem _ hx)

theorem requiredLoop_no_panic (c : Cmd) (wg : GroupsOk c) (m : ArgMap) (pot : List (Id × List Id)) (ex : Bool) :
    ∀ (l : List Id) (e : EK), requiredLoop c m pot ex l = .error e → isPanic e = false
  | [], e, h => by simp [requiredLoop] at h
  | r :: rs, e, h => by
    unfold requiredLoop at h
    split at h
    · exact requiredLoop_no_panic c wg m pot ex rs e h
    · split at h
      · next a _ =>
        have := isMissingRequiredOk_isSome c pot a
        cases hm : isMissingRequiredOk c pot a with
        | none => rw [hm] at this; simp at this
        | some ok =>
          rw [hm] at h
          simp only at h
          split at h
          · simp at h
          · exact requiredLoop_no_panic c wg m pot ex rs e h
      · split at h
        · next g hfg =>
          have : (argsInGroup c g.id).isSome = true := by
            unfold argsInGroup
            apply unrollArgsInGroup_isSome c wg
            intro x hx
            simp at hx; subst hx
            exact findGroup_mem (findGroup_mem_of hfg)
          cases ha : argsInGroup c g.id with
          | none => rw [ha] at this; simp at this
          | some members =>
            rw [ha] at h
            simp only at h
            split at h
            · simp at h
            · exact requiredLoop_no_panic c wg m pot ex rs e h
        · exact requiredLoop_no_panic c wg m pot ex rs e h

/-- **`Validator::validate` never panics** -/
theorem validate_no_panic (c : Cmd) (wg : GroupsOk c) (p : P) (e : EK) (h : validate c p = .error e) :
    isPanic e = false := by
  unfold validate at h
  simp only at h
  have hp := potential_isSome c p.args
  cases hpot : potential c p.args with
  | none => rw [hpot] at hp; simp at hp
  | some pot =>
    rw [hpot] at h
    simp only at h
    split at h
    · simp at h; subst h; rfl
    · split at h
      · simp at h; subst h; rfl
      · split at h
        · next e' he => simp at h; subst h; exact validateConflicts_no_panic c _ _ _ he
        · split at h
          · unfold validateRequired at h
            split at h
            · next e' he => simp at h; subst h; exact requiredLoop_no_panic c wg _ _ _ _ _ he
            · simp only at h
              split at h
              · simp at h; subst h; rfl
              · simp at h
          · simp at h

end Clap.C01
