/-
C11 — Parsing is deterministic, re-entrant and independent of build timing.

Determinism is definitional in the model (the parser is a function of the built
command and the tokens; the correspondence check is what ties that to the real
crate). The theorems here are about the life cycle: `_build_self` is guarded by
the `Built` flag, building is therefore idempotent, and whatever sequence of
build / render / clone / parse operations a `Command` value went through, the
next parse answers what a fresh value would.
-/
import ClapModel
namespace Clap.C11
open Clap Build History

theorem withSubs_settings (c : Cmd) (s : List Cmd) : (c.withSubs s).settings = c.settings := by cases c; rfl
theorem withSubs_subs (c : Cmd) (s : List Cmd) : (c.withSubs s).subs = s := by cases c; rfl
theorem withSubs_self (c : Cmd) : c.withSubs c.subs = c := by cases c; rfl
theorem withSubs_withSubs (c : Cmd) (s t : List Cmd) : (c.withSubs s).withSubs t = c.withSubs t := by cases c; rfl
theorem withSettings_settings (c : Cmd) (s : Settings) : (c.withSettings s).settings = s := by cases c; rfl
theorem withArgs_settings (c : Cmd) (a : List Arg) : (c.withArgs a).settings = c.settings := by cases c; rfl
theorem withGroups_settings (c : Cmd) (g : List Group) : (c.withGroups g).settings = c.settings := by cases c; rfl

/-- `_build_self` always leaves the `Built` flag set -/
theorem buildSelf_built (c : Cmd) : (buildSelf c).settings.built = true := by
  unfold buildSelf
  split
  · assumption
  · simp [buildSelfCore, withSubs_settings, withGroups_settings, withArgs_settings, withSettings_settings]

/-- **building one level twice is building it once** -/
theorem buildSelf_idem (c : Cmd) : buildSelf (buildSelf c) = buildSelf c := by
  have h := buildSelf_built c
  rw [buildSelf]; simp [h]

theorem buildAll_succ (n : Nat) (c : Cmd) :
    buildAll (n+1) c = (buildSelf c).withSubs ((buildSelf c).subs.map (buildAll n)) := rfl

theorem buildAll_built (n : Nat) (c : Cmd) : (buildAll (n+1) c).settings.built = true := by
  simp [buildAll_succ, withSubs_settings, buildSelf_built]

theorem buildSelf_of_built (c : Cmd) (h : c.settings.built = true) : buildSelf c = c := by
  rw [buildSelf]; simp [h]

/-- **`Command::build` is idempotent on the whole tree** (any depth, any command) -/
theorem buildAll_idem : ∀ (n : Nat) (c : Cmd), buildAll n (buildAll n c) = buildAll n c
  | 0, c => rfl
  | n+1, c => by
    have h1 := buildSelf_of_built _ (buildAll_built n c)
    rw [buildAll_succ n (buildAll (n+1) c), h1, buildAll_succ n c]
    simp only [withSubs_subs, withSubs_withSubs, List.map_map]
    congr 1
    apply List.map_congr_left
    intro s _
    exact buildAll_idem n s

/-- a render (one-level build) before the full build changes nothing -/
theorem buildAll_buildSelf (n : Nat) (c : Cmd) : buildAll (n+1) (buildSelf c) = buildAll (n+1) c := by
  simp [buildAll_succ, buildSelf_idem]

/-- the values a history can reach from the definition `c` -/
def Reach (depth : Nat) (c x : Cmd) : Prop := x = c ∨ x = buildSelf c ∨ x = buildAll (depth + 2) c

theorem step_reach (depth : Nat) (c x : Cmd) (op : Op) (hx : Reach depth c x) : Reach depth c (step depth x op) := by
  rcases hx with hx | hx | hx <;> subst hx <;> cases op <;>
    simp [Reach, step, buildSelf_idem, buildAll_idem, buildAll_buildSelf, buildSelf_of_built _ (buildAll_built _ _)]

/-- every value reachable by a history is either the fresh definition (only clones so
far), the fresh definition with its top level built (only renders and clones), or the fully built tree -/
theorem run_cases (depth : Nat) (c : Cmd) (h : List Op) : Reach depth c (run depth c h) := by
  have : ∀ (h : List Op) (x : Cmd), Reach depth c x → Reach depth c (h.foldl (step depth) x) := by
    intro h
    induction h with
    | nil => intro x hx; exact hx
    | cons op h ih => intro x hx; exact ih _ (step_reach depth c x op hx)
  exact this h c (Or.inl rfl)

/-- **history independence**: after ANY sequence of `build`, `render_*`, `clone` and
parses (successful, failing, help - any argv), `try_get_matches_from_mut` returns exactly
what it returns on a fresh `Command` built from the same definition. For every command,
every history, every argv. -/
theorem history_independent (similar : Bytes → Bytes → Bool) (depth : Nat) (c : Cmd) (h : List Op) (argv : List Bytes)
    (hfresh : c.settings.built = false) :
    parseNow similar depth (run depth c h) argv = parseNow similar depth c argv := by
  have hnb : (buildSelf c).settings.noBinaryName = c.settings.noBinaryName := by
    simp [buildSelf, hfresh, buildSelfCore, withSubs_settings, withGroups_settings, withArgs_settings, withSettings_settings]
  have hnb2 : (buildAll (depth + 2) c).settings.noBinaryName = c.settings.noBinaryName := by
    rw [buildAll_succ, withSubs_settings, hnb]
  unfold parseNow Command.tryGetMatchesFrom
  rcases run_cases depth c h with e | e | e <;> rw [e]
  · rw [buildAll_buildSelf, hnb]
  · rw [buildAll_idem, hnb2]

/-- two parses of the same argv in a row agree (re-entrancy; instance of the above) -/
theorem reparse_same (similar : Bytes → Bytes → Bool) (depth : Nat) (c : Cmd) (argv : List Bytes)
    (hfresh : c.settings.built = false) :
    parseNow similar depth (step depth c (.parse argv)) argv = parseNow similar depth c argv :=
  history_independent similar depth c [.parse argv] argv hfresh

/-- **the guard is what makes it so**: the unguarded body of `_build_self` is not idempotent -
run twice on the empty command it adds the help flag twice. -/
def emptyCmd : Cmd := .mk [112] [] none none [] [] {} [] [] []
theorem unguarded_rebuild_differs :
    (buildSelfCore (buildSelfCore emptyCmd)).args.length ≠ (buildSelfCore emptyCmd).args.length := by decide

/-- non-vacuity: the fresh hypothesis holds for a concrete command, and building changes it -/
example : emptyCmd.settings.built = false ∧ (buildSelf emptyCmd).args.length = 1 := by decide

end Clap.C11
