/-
C10 — Rejections are justified, correctly classified, and carry the CLI exit contract.
-/
import ClapModel
import ClapModel.Gen.ErrorKinds
import ClapProofs.C03
import ClapProofs.C04
import ClapProofs.C08
namespace Clap.C10
open Clap Parser

/-! #### stream and exit code, over the kinds re-extracted from the source on every run -/

/-- help and version are the only kinds on stdout; they are the only ones exiting with 0;
every other kind - whatever variants exist in `error/kind.rs` today - goes to stderr with 2 -/
theorem stream_exit_table : ∀ r ∈ Gen.errorKinds,
    (r.stderr = false ↔ (r.kind = "DisplayHelp" ∨ r.kind = "DisplayVersion")) ∧
    r.exitCode = (if r.stderr then 2 else 0) := by decide

/-- the two stdout kinds exist -/
theorem help_version_kinds_exist :
    (Gen.errorKinds.any fun r => r.kind == "DisplayHelp") = true ∧ (Gen.errorKinds.any fun r => r.kind == "DisplayVersion") = true := by
  decide

/-- the model's `use_stderr` is that table -/
theorem model_useStderr (e : EK) : e.useStderr = false ↔ e = .displayHelp ∨ e = .displayVersion := by
  cases e <;> simp [EK.useStderr]

/-! #### value-count verdict -/

/-- `verify_num_args` accepts exactly the counts inside the declared range, and
each rejection names the rule that is broken -/
theorem num_args_verdict (c : Cmd) (a : Arg) (n : Nat) (hi : c.settings.ignoreErrors = false) :
    (verifyNumArgs c a n = .ok () ↔
        (¬(0 < a.getNumArgs.min ∧ n = 0)) ∧ a.getNumArgs.min ≤ n ∧ (∀ mx, a.getNumArgs.max = some mx → n ≤ mx)) := by
  unfold verifyNumArgs
  simp only [hi, Bool.false_eq_true, ↓reduceIte]
  rcases a.getNumArgs with ⟨mn, mx⟩
  cases mx with
  | none =>
    simp only [Range.numValues, Range.isFixed, Range.maxLt]
    by_cases h0 : 0 < mn ∧ n = 0
    · have : (decide (0 < mn) && n == 0) = true := by simpa using h0
      simp [this, h0]
    · have : (decide (0 < mn) && n == 0) = false := by simpa using h0
      simp only [this, Bool.false_eq_true, ↓reduceIte]
      have hne : (none == some mn) = false := by rfl
      simp only [hne, Bool.false_eq_true, ↓reduceIte]
      by_cases h1 : n < mn
      · simp only [h1, ↓reduceIte]; simp; omega
      · simp only [h1, ↓reduceIte]; simp; omega
  | some e =>
    simp only [Range.numValues, Range.isFixed, Range.maxLt]
    by_cases h0 : 0 < mn ∧ n = 0
    · have : (decide (0 < mn) && n == 0) = true := by simpa using h0
      simp [this, h0]
    · have : (decide (0 < mn) && n == 0) = false := by simpa using h0
      simp only [this, Bool.false_eq_true, ↓reduceIte]
      by_cases hfix : e = mn
      · subst hfix
        simp only [beq_self_eq_true, ↓reduceIte]
        by_cases hn : e = n
        · subst hn; simp; omega
        · have : (e != n) = true := by simpa using hn
          simp only [this, ↓reduceIte]; simp; omega
      · have hne : (some e == some mn) = false := by simpa using hfix
        simp only [hne, Bool.false_eq_true, ↓reduceIte]
        by_cases h1 : n < mn
        · simp only [h1, ↓reduceIte]; simp; omega
        · simp only [h1, ↓reduceIte]
          by_cases h2 : e < n
          · have : decide (e < n) = true := by simpa using h2
            simp only [this, ↓reduceIte]; simp; omega
          · have : decide (e < n) = false := by simpa using h2
            simp only [this, Bool.false_eq_true, ↓reduceIte]; simp; omega

/-- which kind a wrong count gets -/
theorem num_args_kinds (c : Cmd) (a : Arg) (n : Nat) (e : EK) (h : verifyNumArgs c a n = .error e) :
    e = .invalidValue ∨ e = .wrongNumberOfValues ∨ e = .tooFewValues ∨ e = .tooManyValues := by
  unfold verifyNumArgs at h
  split at h
  · simp at h
  · simp only at h
    split at h
    · simp at h; subst h; simp
    · split at h
      · split at h <;> simp at h; subst h; simp
      · split at h
        · simp at h; subst h; simp
        · split at h <;> simp at h; subst h; simp

/-! #### rejections by the validator are justified (converse of C03) -/

/-- `ArgumentConflict` from `validate_conflicts` means an exclusive arg is present with
others, or some explicitly present arg has a non-empty conflict list -/
theorem conflict_justified (c : Cmd) (m : ArgMap) (pot : List (Id × List Id))
    (h : Validator.validateConflicts c m pot = .error .argumentConflict) :
    Validator.validateExclusive c m = .error .argumentConflict ∨
    ∃ id ∈ (Validator.explicitIds m).filter (fun id => (c.find id).isSome), ∃ x xs, Validator.gatherConflicts c pot id = some (x :: xs) := by
  unfold Validator.validateConflicts at h
  cases hve : Validator.validateExclusive c m with
  | error e =>
    simp only [hve] at h
    simp at h; subst h
    exact Or.inl rfl
  | ok u =>
    right
    simp only [hve] at h
    have key : ∀ ids, Validator.validateConflicts.go c pot ids = .error .argumentConflict →
        ∃ id ∈ ids, ∃ x xs, Validator.gatherConflicts c pot id = some (x :: xs) := by
      intro ids
      induction ids with
      | nil => intro hh; simp [Validator.validateConflicts.go] at hh
      | cons y ys ih =>
        intro hh
        unfold Validator.validateConflicts.go at hh
        cases hg : Validator.gatherConflicts c pot y with
        | none => simp [hg] at hh
        | some l =>
          cases l with
          | nil =>
            simp only [hg] at hh
            obtain ⟨id, hid, r⟩ := ih hh
            exact ⟨id, by simp [hid], r⟩
          | cons x xs => exact ⟨y, by simp, x, xs, hg⟩
    exact key _ h

theorem go_kinds (c : Cmd) (pot : List (Id × List Id)) : ∀ (ids : List Id) (e : EK),
    Validator.validateConflicts.go c pot ids = .error e → e = .argumentConflict ∨ ∃ s, e = .panic s := by
  intro ids
  induction ids with
  | nil => intro e hh; simp [Validator.validateConflicts.go] at hh
  | cons y ys ih =>
    intro e hh
    unfold Validator.validateConflicts.go at hh
    split at hh
    · simp at hh; subst hh; exact Or.inr ⟨_, rfl⟩
    · exact ih e hh
    · simp at hh; subst hh; exact Or.inl rfl

theorem validateConflicts_kinds (c : Cmd) (m : ArgMap) (pot : List (Id × List Id)) (e : EK)
    (h : Validator.validateConflicts c m pot = .error e) : e = .argumentConflict ∨ ∃ s, e = .panic s := by
  unfold Validator.validateConflicts at h
  split at h
  · next e2 he =>
    simp at h; subst h
    unfold Validator.validateExclusive at he
    simp only at he
    split at he
    · simp at he
    · split at he <;> simp at he
      subst he; simp
  · exact go_kinds c pot _ e h

theorem requiredLoop_kinds (c : Cmd) (m : ArgMap) (pot : List (Id × List Id)) (ex : Bool) : ∀ (ids : List Id) (e : EK),
    Validator.requiredLoop c m pot ex ids = .error e → ∃ s, e = .panic s := by
  intro ids
  induction ids with
  | nil => intro e hh; simp [Validator.requiredLoop] at hh
  | cons y ys ih =>
    intro e hh
    unfold Validator.requiredLoop at hh
    split at hh
    · exact ih e hh
    · split at hh
      · split at hh
        · simp at hh; subst hh; exact ⟨_, rfl⟩
        · split at hh
          · simp at hh
          · exact ih e hh
      · split at hh
        · split at hh
          · simp at hh; subst hh; exact ⟨_, rfl⟩
          · split at hh
            · simp at hh
            · exact ih e hh
        · exact ih e hh

theorem validateRequired_kinds (c : Cmd) (m : ArgMap) (pot : List (Id × List Id)) (e : EK)
    (h : Validator.validateRequired c m pot = .error e) : e = .missingRequiredArgument ∨ ∃ s, e = .panic s := by
  simp only [Validator.validateRequired] at h
  split at h
  · next e' hl =>
    simp at h; subst h
    exact Or.inr (requiredLoop_kinds c m pot _ _ _ hl)
  · split at h
    · simp at h; subst h; exact Or.inl rfl
    · simp at h

/-- the validator only ever reports these kinds -/
theorem validate_kinds (c : Cmd) (p : P) (e : EK) (h : Validator.validate c p = .error e) :
    e = .displayHelpOnMissing ∨ e = .missingSubcommand ∨ e = .argumentConflict ∨ e = .missingRequiredArgument ∨
    ∃ s, e = .panic s := by
  simp only [Validator.validate] at h
  split at h
  · simp at h; subst h; exact Or.inr (Or.inr (Or.inr (Or.inr ⟨_, rfl⟩)))
  · split at h
    · simp at h; subst h; simp
    · split at h
      · simp at h; subst h; simp
      · split at h
        · next e' hc =>
          simp at h; subst h
          rcases validateConflicts_kinds c _ _ _ hc with rfl | ⟨s, rfl⟩
          · simp
          · exact Or.inr (Or.inr (Or.inr (Or.inr ⟨s, rfl⟩)))
        · split at h
          · rcases validateRequired_kinds c _ _ _ h with rfl | ⟨s, rfl⟩
            · simp
            · exact Or.inr (Or.inr (Or.inr (Or.inr ⟨s, rfl⟩)))
          · simp at h

/-! #### suggestions -/

/-- `did_you_mean` only ever draws from the names it is given (for every similarity function) -/
def didYouMean (similar : Bytes → Bytes → Bool) (v : Bytes) (names : List Bytes) : List Bytes := names.filter (similar v)

theorem suggestions_exist (similar : Bytes → Bytes → Bool) (v : Bytes) (names : List Bytes) :
    ∀ s ∈ didYouMean similar v names, s ∈ names := by
  intro s hs
  exact (List.mem_filter.1 hs).1

end Clap.C10
