/-
C14 — OS-string helpers and the argument cursor behave like their simple models.
-/
import ClapProofs.Lemmas.L0
namespace Clap.C14
open Clap Bytes OsStrExt

/-! #### 1. helpers = the same operation on the underlying bytes -/

/-- `find` returns the least byte offset at which the needle occurs -/
theorem find_spec (h n : Bytes) (i : Nat) :
    find h n = some i ↔ (∃ t, h.drop i = n ++ t) ∧ ∀ j, j < i → ¬ ∃ t, h.drop j = n ++ t := by
  rw [find_eq_some_iff]
  constructor
  · rintro ⟨h1, h2⟩
    refine ⟨(startsWith_iff _ _).1 h1, ?_⟩
    intro j hj hex
    have := h2 j hj
    rw [(startsWith_iff _ _).2 hex] at this
    exact absurd this (by simp)
  · rintro ⟨h1, h2⟩
    refine ⟨(startsWith_iff _ _).2 h1, ?_⟩
    intro j hj
    cases hc : startsWith (List.drop j h) n with
    | false => rfl
    | true => exact absurd ((startsWith_iff _ _).1 hc) (h2 j hj)

theorem find_none_spec (h n : Bytes) : find h n = none ↔ ∀ j, ¬ ∃ t, h.drop j = n ++ t := by
  constructor
  · intro hf j hex
    have := find_none hf j
    rw [(startsWith_iff _ _).2 hex] at this
    exact absurd this (by simp)
  · intro hall
    cases hf : find h n with
    | none => rfl
    | some i => exact absurd ((startsWith_iff _ _).1 (find_some hf).1) (hall i)

theorem contains_spec (h n : Bytes) : contains h n = true ↔ ∃ j t, h.drop j = n ++ t := by
  unfold contains
  cases hf : find h n with
  | none => simp; intro j t; exact fun hh => (find_none_spec h n).1 hf j ⟨t, hh⟩
  | some i => simp; exact ⟨i, (startsWith_iff _ _).1 (find_some hf).1⟩

theorem startsWith_spec (h p : Bytes) : startsWith h p = true ↔ ∃ t, h = p ++ t := startsWith_iff h p

theorem stripPrefix_spec (h p t : Bytes) : stripPrefix h p = some t ↔ h = p ++ t := stripPrefix_eq_some h p t

/-- `split_once` cuts around the first occurrence -/
theorem splitOnce_spec (h n a b : Bytes) (hs : splitOnce h n = some (a, b)) :
    h = a ++ n ++ b ∧ find h n = some a.length := by
  obtain ⟨h1, h2, h3⟩ := splitOnce_some hs
  refine ⟨h1, ?_⟩
  rw [find_eq_some_iff]
  refine ⟨?_, h3⟩
  rw [startsWith_iff]
  exact ⟨b, by rw [h1]; simp⟩

theorem splitOnce_none_spec (h n : Bytes) : splitOnce h n = none ↔ find h n = none := by
  unfold splitOnce
  cases find h n <;> simp

/-! #### 2. `split` -/

def join (n : Bytes) : List Bytes → Bytes
  | [] => []
  | [p] => p
  | p :: q :: ps => p ++ n ++ join n (q :: ps)

theorem splitFuel_spec (n : Bytes) (hn : n ≠ []) : ∀ (k : Nat) (h : Bytes), h.length < k →
    join n (splitFuel n k h) = h ∧ (∀ p ∈ splitFuel n k h, find p n = none) ∧ splitFuel n k h ≠ []
  | 0, h, hk => by omega
  | k+1, h, hk => by
    unfold splitFuel
    cases hs : splitOnce h n with
    | none =>
      simp [join]
      exact (splitOnce_none_spec h n).1 hs
    | some p =>
      obtain ⟨a, b⟩ := p
      obtain ⟨h1, h2, h3⟩ := splitOnce_some hs
      have hb : b.length < k := by
        have := congrArg List.length h1
        simp at this
        have : 0 < n.length := by cases n with | nil => exact absurd rfl hn | cons _ _ => simp
        omega
      obtain ⟨ih1, ih2, ih3⟩ := splitFuel_spec n hn k b hb
      simp only
      refine ⟨?_, ?_, by simp⟩
      · cases hsf : splitFuel n k b with
        | nil => exact absurd hsf ih3
        | cons q qs => rw [hsf] at ih1; simp [join, ih1, h1]
      · intro p hp
        simp at hp
        rcases hp with rfl | hp
        · -- no occurrence starts inside the first piece
          rw [find_none_spec]
          intro j ⟨t, ht⟩
          by_cases hj : j + n.length ≤ p.length
          · have := h3 j (by have : 0 < n.length := by cases n with | nil => exact absurd rfl hn | cons _ _ => simp
                             omega)
            have hst : startsWith (List.drop j h) n = true := by
              rw [startsWith_iff, h1]
              refine ⟨t ++ n ++ b, ?_⟩
              have : j ≤ p.length := by omega
              rw [List.append_assoc, List.drop_append_of_le_length this, ht]; simp
            rw [hst] at this; exact absurd this (by simp)
          · have hlen := congrArg List.length ht
            rw [List.length_drop] at hlen
            simp only [List.length_append] at hlen
            have : 0 < n.length := by cases n with | nil => exact absurd rfl hn | cons _ _ => simp
            omega
        · exact ih2 p hp

/-- for a non-empty needle `split` terminates, its pieces joined by the needle
give back the haystack, and no piece contains the needle; the empty needle is
the documented panic (`none`). -/
theorem split_spec (h n : Bytes) :
    (n = [] → split h n = none) ∧
    (n ≠ [] → ∃ ps, split h n = some ps ∧ join n ps = h ∧ ∀ p ∈ ps, find p n = none) := by
  constructor
  · intro hn; simp [split, hn]
  · intro hn
    have hne : n.isEmpty = false := by cases n with | nil => exact absurd rfl hn | cons _ _ => rfl
    obtain ⟨h1, h2, _⟩ := splitFuel_spec n hn (h.length + 1) h (by omega)
    exact ⟨_, by simp [split, hne], h1, h2⟩

example : split [0x61, 0x2C, 0x2C, 0x62] [0x2C] = some [[0x61], [], [0x62]] := by decide


/-! #### 3. the cursor refines "an index into a growable list" -/

namespace Spec
open RawArgs

/-- the abstract cursor: a list and a position; a position at or past the end
reads nothing.  No machine arithmetic. -/
structure S where
  items : List Bytes
  k : Nat
deriving Repr

def clamp (x : Int) (len : Nat) : Nat := min (max x 0).toNat len

def step (s : S) : Op → S × Res
  | .next => ({ s with k := s.k + 1 }, .item s.items[s.k]?)
  | .peek => (s, .item s.items[s.k]?)
  | .isEnd => (s, .bool s.items[s.k]?.isNone)
  | .remaining => ({ s with k := s.items.length }, .items (s.items.drop s.k))
  | .seek (.start p) => ({ s with k := min p s.items.length }, .unit)
  | .seek (.fromEnd p) => ({ s with k := clamp (s.items.length + p) s.items.length }, .unit)
  | .seek (.current p) => ({ s with k := clamp (s.k + p) s.items.length }, .unit)
  | .insert xs => ({ s with items := s.items.take s.k ++ xs ++ s.items.drop s.k }, .unit)

def run : S → List Op → List Res
  | _, [] => []
  | s, op :: ops => (step s op).2 :: run (step s op).1 ops

end Spec

open RawArgs

/-- offsets are genuine `i64` values -/
def OpOk : Op → Prop
  | .seek (.fromEnd p) => i64Min ≤ p ∧ p ≤ i64Max
  | .seek (.current p) => i64Min ≤ p ∧ p ≤ i64Max
  | _ => True

/-- what an op can add to the list -/
def grow : Op → Nat
  | .insert xs => xs.length
  | _ => 0

/-- the concrete state corresponds to the abstract one -/
def Rel (c : State) (a : Spec.S) : Prop := c.items = a.items ∧ c.cursor = a.k

/-- the largest number the machine arithmetic has to represent -/
def size (c : State) : Nat := max c.cursor c.items.length

theorem step_refines (c : State) (a : Spec.S) (op : Op) (hr : Rel c a) (hop : OpOk op)
    (hsmall : size c + grow op + 1 < 2^63) :
    (step c op).2 = (Spec.step a op).2 ∧ (step c op).2 ≠ .panic ∧ Rel (step c op).1 (Spec.step a op).1 ∧
      size (step c op).1 ≤ size c + grow op + 1 := by
  obtain ⟨hi, hk⟩ := hr
  unfold size at *
  cases op with
  | next =>
    simp only [grow] at hsmall
    have hm : min (c.cursor + 1) usizeMax = c.cursor + 1 := Nat.min_eq_left (by unfold usizeMax; omega)
    simp only [step, Spec.step, Rel, hm]
    exact ⟨by rw [hi, hk], by simp, ⟨hi, by rw [← hk]⟩, by omega⟩
  | peek => exact ⟨by simp [step, Spec.step, hi, hk], by simp [step], ⟨hi, hk⟩, by simp [step]; omega⟩
  | isEnd => exact ⟨by simp [step, Spec.step, hi, hk], by simp [step], ⟨hi, hk⟩, by simp [step]; omega⟩
  | remaining =>
    simp only [step, Spec.step, Rel]
    refine ⟨?_, by simp, ⟨hi, by rw [hi]⟩, by omega⟩
    rw [← hi, ← hk]
    congr 1
    by_cases h : c.cursor ≤ c.items.length
    · rw [Nat.min_eq_left h]
    · rw [Nat.min_eq_right (by omega), List.drop_of_length_le (by omega), List.drop_of_length_le (by omega)]
  | insert xs =>
    simp only [step, Spec.step, Rel]
    refine ⟨by trivial, by simp, ⟨?_, hk⟩, ?_⟩
    · rw [← hi, ← hk]
      by_cases h : c.cursor ≤ c.items.length
      · rw [Nat.min_eq_left h]
      · rw [Nat.min_eq_right (by omega), List.drop_of_length_le (by omega), List.drop_of_length_le (by omega),
            List.take_of_length_le (by omega), List.take_of_length_le (by omega)]
    · simp [grow]; omega
  | seek sk =>
    cases sk with
    | start p =>
      simp only [step, Spec.step, Rel, seekPos]
      exact ⟨by trivial, by simp, ⟨hi, by rw [hi]⟩, by omega⟩
    | fromEnd p =>
      simp only [step, Spec.step, Rel, seekPos, Spec.clamp]
      simp only [OpOk] at hop
      simp only [grow] at hsmall
      refine ⟨by trivial, by simp, ⟨hi, ?_⟩, by omega⟩
      rw [← hi]
      have h1 : asI64 c.items.length = (c.items.length : Int) := by
        unfold asI64; split <;> omega
      rw [h1]
      unfold satAddI64 i64Max i64Min at *
      simp only
      split <;> (try split) <;> omega
    | current p =>
      simp only [step, Spec.step, Rel, seekPos, Spec.clamp]
      simp only [OpOk] at hop
      simp only [grow] at hsmall
      refine ⟨by trivial, by simp, ⟨hi, ?_⟩, by omega⟩
      rw [← hi, ← hk]
      have h1 : asI64 c.cursor = (c.cursor : Int) := by
        unfold asI64; split <;> omega
      rw [h1]
      unfold satAddI64 i64Max i64Min at *
      simp only
      split <;> (try split) <;> omega

/-- total list growth of a history -/
def totalGrow : List Op → Nat
  | [] => 0
  | op :: ops => grow op + totalGrow ops

/-- **refinement over every finite operation sequence**: as long as positions and
list length stay below 2^63 (the list cannot be larger in memory; every op adds
at most one to the position) and offsets are `i64`s, every observable result
equals the abstract cursor's and no operation panics. -/
theorem cursor_refines_index (ops : List Op) : ∀ (c : State) (a : Spec.S), Rel c a →
    (∀ op ∈ ops, OpOk op) → size c + ops.length + totalGrow ops + 1 < 2^63 →
    run c ops = Spec.run a ops ∧ Res.panic ∉ run c ops := by
  induction ops with
  | nil => intro c a _ _ _; simp [run, Spec.run]
  | cons op ops ih =>
    intro c a hr hops hsmall
    simp only [totalGrow, List.length_cons] at hsmall
    obtain ⟨h1, h2, h3, h4⟩ := step_refines c a op hr (hops op (by simp)) (by omega)
    obtain ⟨ih1, ih2⟩ := ih (step c op).1 (Spec.step a op).1 h3 (fun o ho => hops o (by simp [ho])) (by omega)
    have hrun : run c (op :: ops) = (step c op).2 :: run (step c op).1 ops := by
      cases hst : step c op with
      | mk s' r =>
        rw [hst] at h2
        cases r <;> simp_all [run]
    rw [hrun]
    simp only [Spec.run]
    refine ⟨by rw [h1, ih1], ?_⟩
    intro hmem
    rcases List.mem_cons.1 hmem with h | h
    · exact h2 h.symm
    · exact ih2 h

/-- non-vacuity: running past the end and then asking for the rest is fine -/
example : run ⟨[[0x61], [0x62]], 0⟩ [.next, .next, .next, .remaining, .insert [[0x63]], .seek (.current (-1)), .peek]
    = [.item (some [0x61]), .item (some [0x62]), .item none, .items [], .unit, .unit, .item (some [0x62])] := by decide

end Clap.C14
