/-
C13 — Lexing any OS string is a lossless, consistent decomposition.
Property theorems only; helper lemmas live in `ClapProofs/Lemmas`.
All statements quantify over every byte string (no length bound).
-/
import ClapProofs.Lemmas.L0
import ClapProofs.Lemmas.Utf8L
namespace Clap.C13
open Clap Bytes ParsedArg

/-! #### 1. the classifications are mutually consistent -/

theorem isEscape_iff (b : Bytes) : isEscape b = true ↔ b = [dash, dash] := by simp [isEscape]
theorem isStdio_iff (b : Bytes) : isStdio b = true ↔ b = [dash] := by simp [isStdio]

theorem isLong_iff_toLong (b : Bytes) : isLong b = (toLong b).isSome := by
  unfold isLong toLong
  rw [← stripPrefix_isSome]
  cases h : stripPrefix b [dash, dash] with
  | none => simp
  | some rem =>
    have hb := (stripPrefix_eq_some b [dash, dash] rem).1 h
    subst hb
    cases rem with
    | nil => simp [isEscape]
    | cons x t =>
      simp [isEscape]
      split <;> simp

theorem isShort_iff_toShort (b : Bytes) : isShort b = (toShort b).isSome := by
  unfold isShort toShort
  rw [← stripPrefix_isSome]
  cases h : stripPrefix b [dash] with
  | none => simp
  | some rem =>
    have hb := (stripPrefix_eq_some b [dash] rem).1 h
    subst hb
    cases rem with
    | nil => simp [isStdio, startsWith]
    | cons x t =>
      by_cases hx : x = dash
      · subst hx; simp [isStdio, startsWith]
      · simp [isStdio, startsWith, hx]

/-- "plain value" is exactly "does not start with `-`", and the four dash-classes
(escape, stdio, long, short) are pairwise exclusive and exhaust the rest. -/
theorem classes_partition (b : Bytes) :
    (startsWith b [dash] = false →
        isEscape b = false ∧ isStdio b = false ∧ isLong b = false ∧ isShort b = false) ∧
    (startsWith b [dash] = true →
        (isEscape b).toNat + (isStdio b).toNat + (isLong b).toNat + (isShort b).toNat = 1) := by
  cases b with
  | nil => simp [startsWith, isEscape, isStdio, isLong, isShort]
  | cons x t =>
    by_cases hx : x = dash
    · subst hx
      cases t with
      | nil => simp [startsWith, isEscape, isStdio, isLong, isShort]
      | cons y u =>
        by_cases hy : y = dash
        · subst hy
          cases u with
          | nil => simp [startsWith, isEscape, isStdio, isLong, isShort]
          | cons z v => simp [startsWith, isEscape, isStdio, isLong, isShort]
        · have hy' : (y == dash) = false := by simp [hy]
          simp [startsWith, isEscape, isStdio, isLong, isShort, hy']
    · simp [startsWith, isEscape, isStdio, isLong, isShort, hx]


/-! #### 2. the long decomposition re-assembles to the original bytes -/

/-- `=value` part of a long argument -/
def longTail : Option Bytes → Bytes
  | none => []
  | some v => Bytes.eq :: v

/-- what `to_long` returns is a decomposition of the argument: `--` + name
[+ `=` + value]; the name contains no `=`, its "is text" flag is exactly UTF-8
validity of the name, and name and value are not both missing. -/
theorem toLong_reassembles (b name : Bytes) (u : Bool) (v : Option Bytes)
    (h : toLong b = some (name, u, v)) :
    b = dash :: dash :: name ++ longTail v ∧
    Bytes.eq ∉ name ∧ u = Utf8.valid name ∧ (name ≠ [] ∨ v.isSome) := by
  unfold toLong at h
  cases hs : stripPrefix b [dash, dash] with
  | none => simp [hs] at h
  | some rem =>
    have hb := (stripPrefix_eq_some b [dash, dash] rem).1 hs
    simp only [hs] at h
    split at h
    · simp at h
    · next hne =>
      cases hso : OsStrExt.splitOnce rem [Bytes.eq] with
      | none =>
        simp [hso] at h
        obtain ⟨rfl, rfl, rfl⟩ := h
        refine ⟨by simpa [longTail] using hb, OsStrExt.not_mem_of_never _ _ (OsStrExt.splitOnce_none hso), rfl, ?_⟩
        left; intro hn; simp [hn] at hne
      | some p =>
        obtain ⟨p0, p1⟩ := p
        simp [hso] at h
        obtain ⟨rfl, rfl, rfl⟩ := h
        obtain ⟨hrem, _, hmin⟩ := OsStrExt.splitOnce_some hso
        refine ⟨by rw [hb, hrem]; simp [longTail], ?_, rfl, by simp⟩
        apply OsStrExt.not_mem_of_no_match Bytes.eq p0 (Bytes.eq :: p1)
        intro j hj
        have := hmin j hj
        rw [hrem] at this
        simpa using this

/-! #### 3. negative numbers -/

theorem isNumber_dash_false (r : Bytes) : isNumber (dash :: r) = false := by
  simp [isNumber, isNumberLoop, isDigit, dash]

/-- a negative number is valid UTF-8, starts with `-`, the rest has the number
shape, and (except for the lone `-`) it is short-looking -/
theorem isNegativeNumber_spec (b : Bytes) (h : isNegativeNumber b = true) :
    Utf8.valid b = true ∧ ∃ r, b = dash :: r ∧ isNumber r = true := by
  unfold isNegativeNumber at h
  split at h
  · next hv =>
    cases hs : stripPrefix b [dash] with
    | none => simp [hs] at h
    | some r =>
      simp [hs] at h
      exact ⟨hv, r, by simpa using (stripPrefix_eq_some b [dash] r).1 hs, h⟩
  · simp at h

/-- a negative number is short-looking (`-` followed by something that is not
`-`); in particular the stdio argument `-` is not a negative number.
(Before the `fix:` commit for finding F13 this held only for `b ≠ "-"`.) -/
theorem negativeNumber_isShort (b : Bytes) (h : isNegativeNumber b = true) : isShort b = true := by
  obtain ⟨_, r, rfl, hr⟩ := isNegativeNumber_spec b h
  cases r with
  | nil => simp [isNumber] at hr
  | cons x t =>
    by_cases hx : x = dash
    · subst hx; simp [isNumber_dash_false] at hr
    · have hx' : (x == dash) = false := by simp [hx]
      simp [isShort, isStdio, startsWith, hx']

example : isNegativeNumber [dash, 0x31, 0x2E, 0x35] = true := by decide
example : isNegativeNumber [dash] = false := by decide

/-! #### 4. walking a short cluster is lossless -/

open ShortFlags in
/-- the unread bytes of a cluster -/
def unread (s : ShortFlags) : Bytes := s.chars.flatten ++ s.invalid.getD []

/-- the invariant tying the byte offset used for re-slicing to the unread bytes -/
def Inv (s : ShortFlags) : Prop := s.inner.drop s.off = unread s ∧ s.off ≤ s.inner.length

theorem inv_new (inner : Bytes) : Inv (ShortFlags.new inner) ∧ unread (ShortFlags.new inner) = inner := by
  have hl := Utf8.splitValid_lossless inner
  unfold Utf8.chars Utf8.invalidRest at hl
  unfold Inv unread ShortFlags.new
  cases hsv : Utf8.splitValid inner with
  | mk cs rest =>
    rw [hsv] at hl
    simp only at hl ⊢
    by_cases hr : rest = []
    · subst hr; simp at hl ⊢; exact ⟨hl.symm, hl⟩
    · cases rest with
      | nil => exact absurd rfl hr
      | cons x t => simp at hl ⊢; exact ⟨hl.symm, hl⟩

def flagBytes : ShortFlags.Flag → Bytes
  | .ch c => c
  | .bad s => s
  | .done => []

/-- `next_flag` hands out exactly the next unread bytes and keeps the invariant -/
theorem nextFlag_lossless (s : ShortFlags) (hi : Inv s) :
    unread s = flagBytes s.nextFlag.2 ++ unread s.nextFlag.1 ∧ Inv s.nextFlag.1 ∧
    (s.nextFlag.2 = .done → unread s = []) := by
  obtain ⟨hd, hle⟩ := hi
  unfold ShortFlags.nextFlag
  cases hc : s.chars with
  | cons c cs =>
    simp only [unread, Inv, flagBytes, hc] at hd ⊢
    refine ⟨by simp, ⟨?_, ?_⟩, by simp⟩
    · rw [← List.drop_drop, hd]; simp
    · have := congrArg List.length hd
      rw [List.length_drop] at this
      simp at this; omega
  | nil =>
    cases hv : s.invalid with
    | some suf =>
      simp only [unread, Inv, flagBytes, hc, hv] at hd ⊢
      simp at hd ⊢
      have := congrArg List.length hd
      rw [List.length_drop] at this
      constructor
      · omega
      · omega
    | none =>
      simp only [unread, Inv, flagBytes, hc, hv] at hd ⊢
      simp at hd ⊢
      exact ⟨hd, hle⟩

/-- `next_value_os` returns exactly the unread bytes (`None` only when the
iterator is exhausted), and nothing remains afterwards -/
theorem nextValueOs_unread (s : ShortFlags) (hi : Inv s) :
    s.nextValueOs.2.getD [] = unread s ∧
    (s.nextValueOs.2 = none ↔ s.chars = [] ∧ s.invalid = none) ∧
    unread s.nextValueOs.1 = [] ∧ Inv s.nextValueOs.1 := by
  obtain ⟨hd, hle⟩ := hi
  unfold ShortFlags.nextValueOs
  cases hc : s.chars with
  | cons c cs =>
    simp only [unread, Inv, hc] at hd ⊢
    simp [hd]
  | nil =>
    cases hv : s.invalid with
    | some suf =>
      simp only [unread, Inv, hc, hv] at hd ⊢
      simp at hd ⊢
      have := congrArg List.length hd
      rw [List.length_drop] at this
      constructor <;> omega
    | none =>
      simp only [unread, Inv, hc, hv] at hd ⊢
      simp at hd ⊢
      exact ⟨hd, hle⟩

/-! the history version: any interleaving of iterator calls -/

inductive SOp
  | flag | value | isEmpty | isNeg
  | advance (n : Nat)

/-- one call: new state and the bytes it handed out -/
def stepOp (s : ShortFlags) : SOp → ShortFlags × Bytes
  | .flag => (s.nextFlag.1, flagBytes s.nextFlag.2)
  | .value => (s.nextValueOs.1, s.nextValueOs.2.getD [])
  | .isEmpty => (s, [])
  | .isNeg => (s, [])
  | .advance n => ((ShortFlags.advanceBy n 0 s).1, (unread s).take ((unread s).length - (unread (ShortFlags.advanceBy n 0 s).1).length))

def runOps : ShortFlags → List SOp → ShortFlags × Bytes
  | s, [] => (s, [])
  | s, op :: ops =>
    let r := stepOp s op
    let r' := runOps r.1 ops
    (r'.1, r.2 ++ r'.2)

theorem advanceBy_suffix : ∀ (n i : Nat) (s : ShortFlags), Inv s →
    Inv (ShortFlags.advanceBy n i s).1 ∧ ∃ p, unread s = p ++ unread (ShortFlags.advanceBy n i s).1
  | 0, _, s, hi => ⟨hi, [], by simp [ShortFlags.advanceBy]⟩
  | n+1, i, s, hi => by
    unfold ShortFlags.advanceBy
    obtain ⟨hu, hi', _⟩ := nextFlag_lossless s hi
    cases hf : s.nextFlag with
    | mk s' f =>
      rw [hf] at hu hi'
      cases f with
      | ch c =>
        simp only
        obtain ⟨hi2, p, hp⟩ := advanceBy_suffix n (i+1) s' hi'
        exact ⟨hi2, flagBytes (.ch c) ++ p, by rw [hu]; simp only at hp ⊢; rw [hp]; simp⟩
      | bad suf => exact ⟨hi', flagBytes (.bad suf), hu⟩
      | done => exact ⟨hi', flagBytes .done, hu⟩

/-- **lossless walk, for every finite sequence of iterator operations**: the
bytes handed out so far followed by the unread bytes are always the cluster. -/
theorem shortWalk_lossless (ops : List SOp) : ∀ (s : ShortFlags), Inv s →
    unread s = (runOps s ops).2 ++ unread (runOps s ops).1 ∧ Inv (runOps s ops).1 := by
  induction ops with
  | nil => intro s hi; simp [runOps, hi]
  | cons op ops ih =>
    intro s hi
    have hstep : unread s = (stepOp s op).2 ++ unread (stepOp s op).1 ∧ Inv (stepOp s op).1 := by
      cases op with
      | flag => obtain ⟨h1, h2, _⟩ := nextFlag_lossless s hi; exact ⟨h1, h2⟩
      | value =>
        obtain ⟨h1, _, h3, h4⟩ := nextValueOs_unread s hi
        exact ⟨by simp [stepOp, h1, h3], h4⟩
      | isEmpty => simp [stepOp, hi]
      | isNeg => simp [stepOp, hi]
      | advance n =>
        obtain ⟨h1, p, hp⟩ := advanceBy_suffix n 0 s hi
        refine ⟨?_, h1⟩
        simp only [stepOp]
        have : (unread s).length - (unread (ShortFlags.advanceBy n 0 s).1).length = p.length := by
          rw [hp]; simp
        rw [this]
        conv => lhs; rw [hp]
        conv => rhs; rw [hp]
        simp
    obtain ⟨h1, h2⟩ := ih (stepOp s op).1 hstep.2
    simp only [runOps]
    exact ⟨by rw [hstep.1, List.append_assoc, ← h1], h2⟩

/-- from a fresh cluster: whatever was handed out plus what is unread is the
text after the leading `-` -/
theorem shortWalk_from_new (inner : Bytes) (ops : List SOp) :
    inner = (runOps (ShortFlags.new inner) ops).2 ++ unread (runOps (ShortFlags.new inner) ops).1 := by
  obtain ⟨hi, hu⟩ := inv_new inner
  have := (shortWalk_lossless ops _ hi).1
  rw [hu] at this
  exact this

/-- non-vacuity: a concrete mixed cluster (`a`, `é`, then an invalid byte) -/
example : (runOps (ShortFlags.new [0x61, 0xC3, 0xA9, 0xFF]) [.flag, .isEmpty, .value]).2 = [0x61, 0xC3, 0xA9, 0xFF] := by decide

/-- `to_short` hands the iterator exactly the bytes after the leading `-` -/
theorem toShort_spec (b : Bytes) (s : ShortFlags) (h : toShort b = some s) :
    b = dash :: unread s ∧ Inv s ∧ unread s ≠ [] := by
  unfold toShort at h
  cases hs : stripPrefix b [dash] with
  | none => simp [hs] at h
  | some rem =>
    have hb := (stripPrefix_eq_some b [dash] rem).1 hs
    simp only [hs] at h
    split at h
    · simp at h
    · split at h
      · simp at h
      · next hne =>
        simp at h
        subst h
        obtain ⟨hi, hu⟩ := inv_new rem
        refine ⟨by rw [hu]; simpa using hb, hi, ?_⟩
        rw [hu]; intro hn; simp [hn] at hne

end Clap.C13
