/-
C18, second part: what survives `finish` still represents every offered item; completeness for short-flag clusters;
`--opt=value` candidates extend the word and name a possible value of the option.
-/
import ClapProofs.C18
import ClapProofs.C14
namespace Clap.C18
open Clap Engine

/-! #### `finish` keeps a representative of every visible item -/

def finStep (acc : List Cand × List Bytes) (cd : Cand) : List Cand × List Bytes :=
  match cd.id with
  | some i => if acc.2.contains i then acc else (acc.1 ++ [cd], acc.2 ++ [i])
  | none => (acc.1 ++ [cd], acc.2)

theorem finish_eq (cs : List Cand) :
    finish cs = ((if cs.any (!·.hidden) then cs.filter (!·.hidden) else cs).foldl finStep ([], [])).1 := rfl

/-- the id list of the fold is the list of ids of the kept candidates -/
def FinInv (acc : List Cand × List Bytes) : Prop := ∀ i ∈ acc.2, ∃ y ∈ acc.1, y.id = some i

theorem finStep_inv (acc : List Cand × List Bytes) (cd : Cand) (h : FinInv acc) : FinInv (finStep acc cd) := by
  unfold finStep
  cases hid : cd.id with
  | none =>
    intro i hi
    obtain ⟨y, hy, hyi⟩ := h i hi
    exact ⟨y, List.mem_append_left _ hy, hyi⟩
  | some j =>
    simp only
    split
    · exact h
    · intro i hi
      rcases List.mem_append.1 hi with hi | hi
      · obtain ⟨y, hy, hyi⟩ := h i hi
        exact ⟨y, List.mem_append_left _ hy, hyi⟩
      · simp at hi; subst hi
        exact ⟨cd, by simp, hid⟩

theorem finStep_mono (acc : List Cand × List Bytes) (cd : Cand) : ∀ y ∈ acc.1, y ∈ (finStep acc cd).1 := by
  intro y hy
  unfold finStep
  cases cd.id with
  | none => exact List.mem_append_left _ hy
  | some j => simp only; split; exact hy; exact List.mem_append_left _ hy

theorem finFold_mono (cs : List Cand) : ∀ (acc : List Cand × List Bytes), ∀ y ∈ acc.1, y ∈ (cs.foldl finStep acc).1 := by
  induction cs with
  | nil => intro acc y hy; exact hy
  | cons c cs ih => intro acc y hy; exact ih _ y (finStep_mono acc c y hy)

/-- a candidate fed to the fold is kept itself (no id) or some kept candidate carries its id -/
theorem finFold_represents (cs : List Cand) : ∀ (acc : List Cand × List Bytes), FinInv acc → ∀ x ∈ cs,
    ∃ y ∈ (cs.foldl finStep acc).1, y.id = x.id ∧ (x.id = none → y = x) := by
  induction cs with
  | nil => intro _ _ x hx; cases hx
  | cons c cs ih =>
    intro acc hinv x hx
    rcases List.mem_cons.1 hx with rfl | hx
    · -- the step on `x` itself leaves a representative in the accumulator, which later steps keep
      have hrep : ∃ y ∈ (finStep acc x).1, y.id = x.id ∧ (x.id = none → y = x) := by
        unfold finStep
        cases hid : x.id with
        | none => exact ⟨x, by simp, hid, fun _ => rfl⟩
        | some j =>
          simp only
          split
          · next hc =>
            obtain ⟨y, hy, hyi⟩ := hinv j (by simpa using hc)
            exact ⟨y, hy, hyi, fun h => by cases h⟩
          · exact ⟨x, by simp, hid, fun h => by cases h⟩
      obtain ⟨y, hy, h1, h2⟩ := hrep
      exact ⟨y, finFold_mono cs _ y hy, h1, h2⟩
    · exact ih _ (finStep_inv acc c hinv) x hx

/-- **nothing visible is lost by the hidden filter and the id de-duplication**: a visible raw candidate is returned
itself when it is a value, and otherwise a returned candidate stands for the same option or subcommand -/
theorem finish_represents (cs : List Cand) (x : Cand) (hx : x ∈ cs) (hv : x.hidden = false) :
    ∃ y ∈ finish cs, y.id = x.id ∧ (x.id = none → y = x) ∧ y.hidden = false := by
  have hany : cs.any (!·.hidden) = true := List.any_eq_true.2 ⟨x, hx, by simp [hv]⟩
  have hxf : x ∈ cs.filter (!·.hidden) := List.mem_filter.2 ⟨hx, by simp [hv]⟩
  obtain ⟨y, hy, h1, h2⟩ := finFold_represents (cs.filter (!·.hidden)) ([], []) (by intro i hi; cases hi) x hxf
  have hyf : y ∈ finish cs := by rw [finish_eq]; simpa [hany] using hy
  exact ⟨y, hyf, h1, h2, hidden_only_if_nothing_visible cs hany y hyf⟩

/-- when nothing visible matches, hidden candidates are represented the same way -/
theorem finish_represents_hidden (cs : List Cand) (x : Cand) (hx : x ∈ cs) (hnone : cs.any (!·.hidden) = false) :
    ∃ y ∈ finish cs, y.id = x.id ∧ (x.id = none → y = x) := by
  obtain ⟨y, hy, h1, h2⟩ := finFold_represents cs ([], []) (by intro i hi; cases hi) x hx
  exact ⟨y, by rw [finish_eq]; simpa [hnone] using hy, h1, h2⟩

/-! #### completeness for short-flag clusters -/

/-- after a valid-UTF-8 cluster `-abc` none of whose flags takes a value, every short (or visible short alias) of every
arg of the level is offered as the word followed by that flag -/
theorem shorts_complete (c : ECmd) (tok : Bytes) (sf : ShortFlags) (hs : ParsedArg.toShort tok = some sf)
    (h1 : ParsedArg.isEmpty tok = false) (h2 : ParsedArg.isStdio tok = false) (h3 : ParsedArg.isEscape tok = false)
    (hl : ParsedArg.toLong tok = none) (hneg : sf.isNegativeNumber = false)
    (hutf : sf.invalid = none) (lead : Bytes) (rest : ShortFlags)
    (hp : parseShortflags c (sf.chars.length + 1) sf [] = (lead, none, rest))
    (a : EArg) (ha : a ∈ c.args) (sh : Bytes) (hsh : sh ∈ a.shorts) :
    ∃ cd ∈ optionCands c tok, cd.value = tok ++ sh ∧ cd.hidden = a.hide ∧ cd.id = some (idArg a.id) := by
  have hall := parseShortflags_all c _ sf [] lead rest hutf (Nat.lt_succ_self _) hp
  obtain ⟨htok, _, _⟩ := C13.toShort_spec tok sf hs
  have hun : C13.unread sf = sf.chars.flatten := by simp [C13.unread, hutf]
  refine ⟨{ value := ([Bytes.dash] ++ lead) ++ sh, hidden := a.hide, id := some (idArg a.id) }, ?_, ?_, rfl, rfl⟩
  · unfold optionCands
    simp only [h1, h2, h3, hl, hs, hneg, hp, Bool.false_eq_true, if_false]
    simp only [shortCands, List.mem_flatMap, List.mem_map]
    exact ⟨a, ha, sh, hsh, rfl⟩
  · simp only
    rw [htok, hun, hall]
    simp

/-! #### values: `--opt=value` and plain value candidates extend the word and name a possible value -/

theorem join_last (n : Bytes) : ∀ ps : List Bytes, ps ≠ [] → ∃ pre, C14.join n ps = pre ++ ps.getLastD []
  | [], h => absurd rfl h
  | [p], _ => ⟨[], by simp [C14.join]⟩
  | p :: q :: ps, _ => by
    obtain ⟨pre, hpre⟩ := join_last n (q :: ps) (by simp)
    refine ⟨p ++ n ++ pre, ?_⟩
    simp only [C14.join, hpre, List.append_assoc]
    simp

/-- `rsplit_delimiter` cuts the value in two: what it returns, put together, is the value -/
theorem rsplitDelim_spec (v : Bytes) (d : Option Bytes) : v = (rsplitDelim v d).1 ++ (rsplitDelim v d).2 := by
  unfold rsplitDelim
  cases d with
  | none => rfl
  | some d =>
    simp only
    cases hs : OsStrExt.split v d with
    | none => rfl
    | some parts =>
      simp only
      split
      · rfl
      · next hlen =>
        have hd : d ≠ [] := by
          intro hd; subst hd; simp [OsStrExt.split] at hs
        obtain ⟨ps, hps, hj, _⟩ := (C14.split_spec v d).2 hd
        rw [hs] at hps
        cases hps
        have hne : parts ≠ [] := by intro h; subst h; simp at hlen
        obtain ⟨pre, hpre⟩ := join_last d parts hne
        rw [hj] at hpre
        simp only
        generalize parts.getLastD [] = last at hpre ⊢
        subst hpre
        simp

/-- a value candidate is the word extended to a possible value of the arg (after the last delimiter) -/
theorem valueCands_sound (a : EArg) (v : Bytes) (u : Bool) (cd : Cand) (h : cd ∈ valueCands a v u) :
    Bytes.startsWith cd.value v = true ∧ cd.id = none ∧
    ∃ pvs p, a.pvs = some pvs ∧ p ∈ pvs ∧ cd.hidden = p.hide ∧ cd.value = (rsplitDelim v a.delimiter).1 ++ p.name := by
  unfold valueCands at h
  cases hp : a.pvs with
  | none => simp [hp] at h
  | some pvs =>
    simp only [hp] at h
    split at h
    · cases h
    · simp only [List.mem_map, List.mem_filter] at h
      obtain ⟨p, ⟨hpm, hst⟩, rfl⟩ := h
      refine ⟨?_, rfl, pvs, p, rfl, hpm, rfl, rfl⟩
      obtain ⟨t, ht⟩ := (C14.startsWith_spec _ _).1 hst
      simp only
      have hv := rsplitDelim_spec v a.delimiter
      rw [ht, ← List.append_assoc, ← hv]
      exact startsWith_append v t

/-- **`--opt=value` candidates extend the word** and complete the value to a possible value of that option -/
theorem optvalue_candidates_extend (c : ECmd) (tok flag v : Bytes)
    (hf : ParsedArg.toLong tok = some (flag, true, some v))
    (h1 : ParsedArg.isEmpty tok = false) (h2 : ParsedArg.isStdio tok = false) (h3 : ParsedArg.isEscape tok = false)
    (cd : Cand) (hcd : cd ∈ optionCands c tok) :
    Bytes.startsWith cd.value tok = true ∧
    ∃ a ∈ c.args, a.long = some flag ∧ ∃ pvs p, a.pvs = some pvs ∧ p ∈ pvs ∧
      cd.value = b_dd ++ flag ++ [Bytes.eq] ++ ((rsplitDelim v a.delimiter).1 ++ p.name) := by
  obtain ⟨htok, _, _, _⟩ := C13.toLong_reassembles tok flag true (some v) hf
  unfold optionCands at hcd
  simp only [h1, h2, h3, hf, Bool.false_eq_true, if_false, Bool.not_true] at hcd
  cases hfa : c.args.find? (fun a => a.long == some flag) with
  | none => simp [hfa] at hcd
  | some a =>
    simp only [hfa, List.mem_map] at hcd
    obtain ⟨cd', hcd', rfl⟩ := hcd
    obtain ⟨hst, _, pvs, p, hpv, hpm, _, hval⟩ := valueCands_sound a v _ cd' hcd'
    have hmem := List.mem_of_find?_eq_some hfa
    have hlong : a.long = some flag := by have := List.find?_some hfa; simpa using this
    refine ⟨?_, a, hmem, hlong, pvs, p, hpv, hpm, by simp [hval]⟩
    obtain ⟨t, ht⟩ := (C14.startsWith_spec _ _).1 hst
    simp only
    rw [htok, ht]
    simp only [C13.longTail, b_dd, List.cons_append, List.nil_append, List.append_assoc]
    have : Bytes.dash :: Bytes.dash :: (flag ++ Bytes.eq :: (v ++ t)) = (Bytes.dash :: Bytes.dash :: (flag ++ Bytes.eq :: v)) ++ t := by simp
    rw [this]
    exact startsWith_append _ t

/-! #### end to end: where a new argument may start, every visible option and subcommand extending the word is
represented among the RETURNED candidates -/

theorem mem_insertByValue (x y : Cand) : ∀ l : List Cand, y ∈ rawCands.insertByValue x l ↔ y = x ∨ y ∈ l
  | [] => by simp [rawCands.insertByValue]
  | z :: zs => by
    unfold rawCands.insertByValue
    split
    · simp only [List.mem_cons, mem_insertByValue x y zs]
      constructor
      · rintro (h | h | h)
        · exact Or.inr (Or.inl h)
        · exact Or.inl h
        · exact Or.inr (Or.inr h)
      · rintro (h | h | h)
        · exact Or.inr (Or.inl h)
        · exact Or.inl h
        · exact Or.inr (Or.inr h)
    · simp

theorem mem_sortFold (l : List Cand) (y : Cand) : ∀ acc : List Cand,
    y ∈ l.foldl (fun acc x => rawCands.insertByValue x acc) acc ↔ y ∈ acc ∨ y ∈ l := by
  induction l with
  | nil => intro acc; simp
  | cons x xs ih =>
    intro acc
    simp only [List.foldl_cons, ih, mem_insertByValue, List.mem_cons]
    constructor
    · rintro ((h | h) | h)
      · exact Or.inr (Or.inl h)
      · exact Or.inl h
      · exact Or.inr (Or.inr h)
    · rintro (h | h | h)
      · exact Or.inl (Or.inr h)
      · exact Or.inl (Or.inl h)
      · exact Or.inr h

theorem mem_dedupFold (l : List Cand) (y : Cand) : ∀ acc : List Cand, y ∈ acc ∨ y ∈ l →
    y ∈ l.foldl (fun acc x => if acc.contains x then acc else acc ++ [x]) acc := by
  induction l with
  | nil => intro acc h; rcases h with h | h; exact h; cases h
  | cons x xs ih =>
    intro acc h
    simp only [List.foldl_cons]
    apply ih
    rcases h with h | h
    · left; split; exact h; exact List.mem_append_left _ h
    · rcases List.mem_cons.1 h with rfl | h
      · left
        split
        · next hc => simpa using hc
        · simp
      · exact Or.inr h

/-- `sort` + `dedup` of the subcommand candidates loses no candidate -/
theorem mem_dedupSubs (l : List Cand) (y : Cand) (h : y ∈ l) : y ∈ rawCands.dedupSubs l := by
  unfold rawCands.dedupSubs
  exact mem_dedupFold _ y [] (Or.inr ((mem_sortFold l y []).2 (Or.inr h)))

/-- **a visible subcommand whose name or visible alias extends the word is represented in what `complete` returns** at a
position where a new argument may start -/
theorem visible_subcommand_offered (c : ECmd) (pos : Nat) (tok : Bytes) (hu : Utf8.valid tok = true)
    (sc : ECmd) (hsc : sc ∈ c.subs) (hvis : sc.hide = false) (n : Bytes) (hn : n ∈ sc.names)
    (hp : Bytes.startsWith n tok = true) :
    ∃ y ∈ finish (rawCands c pos tok .valueDone), y.id = some (idCmd (sc.names.headD [])) ∧ y.hidden = false := by
  let cd : Cand := { value := n, hidden := sc.hide, id := some (idCmd (sc.names.headD [])) }
  have hcd : cd ∈ subCands c tok := by
    simp only [subCands, List.mem_filter, List.mem_flatMap, List.mem_append, List.mem_map]
    exact ⟨⟨sc, hsc, Or.inl ⟨n, hn, rfl⟩⟩, hp⟩
  have hraw : cd ∈ rawCands c pos tok .valueDone := by
    unfold rawCands
    simp only [hu, if_true]
    exact List.mem_append_left _ (List.mem_append_left _ (mem_dedupSubs _ cd hcd))
  obtain ⟨y, hy, h1, _, h3⟩ := finish_represents _ cd hraw hvis
  exact ⟨y, hy, h1, h3⟩

/-- **a visible option one of whose long spellings extends `--prefix` is represented in what `complete` returns** at a
position where a new argument may start -/
theorem visible_long_offered (c : ECmd) (pos : Nat) (tok flag : Bytes) (hf : ParsedArg.toLong tok = some (flag, true, none))
    (h1 : ParsedArg.isEmpty tok = false) (h2 : ParsedArg.isStdio tok = false) (h3 : ParsedArg.isEscape tok = false)
    (a : EArg) (ha : a ∈ c.args) (hvis : a.hide = false) (l : Bytes) (hl : l ∈ a.longs)
    (hp : Bytes.startsWith (b_dd ++ l) tok = true) :
    ∃ y ∈ finish (rawCands c pos tok .valueDone), y.id = some (idArg a.id) ∧ y.hidden = false := by
  obtain ⟨cd, hcd, _, hhid, hid⟩ := longs_complete c tok flag hf h1 h2 h3 a ha l hl hp
  have hraw : cd ∈ rawCands c pos tok .valueDone := by
    unfold rawCands
    exact List.mem_append_right _ hcd
  obtain ⟨y, hy, hy1, _, hy3⟩ := finish_represents _ cd hraw (by rw [hhid, hvis])
  exact ⟨y, hy, by rw [hy1, hid], hy3⟩

/-- the same for a short after a cluster of flags -/
theorem visible_short_offered (c : ECmd) (pos : Nat) (tok : Bytes) (sf : ShortFlags) (hs : ParsedArg.toShort tok = some sf)
    (h1 : ParsedArg.isEmpty tok = false) (h2 : ParsedArg.isStdio tok = false) (h3 : ParsedArg.isEscape tok = false)
    (hl : ParsedArg.toLong tok = none) (hneg : sf.isNegativeNumber = false)
    (hutf : sf.invalid = none) (lead : Bytes) (rest : ShortFlags)
    (hp : parseShortflags c (sf.chars.length + 1) sf [] = (lead, none, rest))
    (a : EArg) (ha : a ∈ c.args) (hvis : a.hide = false) (sh : Bytes) (hsh : sh ∈ a.shorts) :
    ∃ y ∈ finish (rawCands c pos tok .valueDone), y.id = some (idArg a.id) ∧ y.hidden = false := by
  obtain ⟨cd, hcd, _, hhid, hid⟩ := shorts_complete c tok sf hs h1 h2 h3 hl hneg hutf lead rest hp a ha sh hsh
  have hraw : cd ∈ rawCands c pos tok .valueDone := by
    unfold rawCands
    exact List.mem_append_right _ hcd
  obtain ⟨y, hy, hy1, _, hy3⟩ := finish_represents _ cd hraw (by rw [hhid, hvis])
  exact ⟨y, hy, by rw [hy1, hid], hy3⟩

/-- non-vacuity: on the sample command the empty word is answered with a candidate standing for subcommand `s` -/
example : ∃ y ∈ finish (rawCands sample 1 [] .valueDone), y.id = some (idCmd [115]) ∧ y.hidden = false :=
  visible_subcommand_offered sample 1 [] (by decide) (.mk [[115]] [] false false [] []) (by simp [sample, ECmd.subs]) rfl [115]
    (by simp [ECmd.names]) (by decide)

end Clap.C18
