import ClapModel
namespace Clap.TextWrap

/-- the non-whitespace characters of a text, in order -/
def strip (s : Str) : Str := s.filter (fun c => !isWs c)

@[simp] theorem strip_nil : strip [] = [] := rfl
@[simp] theorem strip_append (a b : Str) : strip (a ++ b) = strip a ++ strip b := by simp [strip]
theorem strip_cons (c : Char) (s : Str) : strip (c :: s) = if isWs c then strip s else c :: strip s := by
  simp [strip, List.filter_cons]; split <;> simp_all

theorem strip_eq_nil_of_all {s : Str} (h : s.all isWs = true) : strip s = [] := by
  induction s with
  | nil => rfl
  | cons c cs ih =>
    simp at h
    rw [strip_cons]; simp [h.1]; exact ih (by simpa using h.2)

/-- `dropWhileEnd p` only removes a suffix all of whose characters satisfy `p` -/
theorem dropWhileEnd_spec (p : Char → Bool) : ∀ s : Str, ∃ t, s = dropWhileEnd p s ++ t ∧ t.all p = true
  | [] => ⟨[], by simp [dropWhileEnd]⟩
  | c :: cs => by
    obtain ⟨t, ht, hp⟩ := dropWhileEnd_spec p cs
    unfold dropWhileEnd
    cases hd : dropWhileEnd p cs with
    | nil =>
      rw [hd] at ht
      simp only
      by_cases hc : p c = true
      · refine ⟨c :: cs, by simp [hc], ?_⟩
        simp at ht; subst ht; simp [hc, hp]
      · refine ⟨t, by simp [hc]; simpa using ht, hp⟩
    | cons x r =>
      rw [hd] at ht
      exact ⟨t, by simp; exact ht, hp⟩

theorem strip_trimEnd (s : Str) : strip (trimEnd s) = strip s := by
  obtain ⟨t, ht, hp⟩ := dropWhileEnd_spec isWs s
  unfold trimEnd
  conv => rhs; rw [ht]
  simp [strip_eq_nil_of_all hp]

theorem findWordsAux_flatten : ∀ (s cur : Str) (inWs : Bool),
    (findWordsAux cur inWs s).flatten = cur.reverse ++ s
  | [], cur, _ => by
    unfold findWordsAux
    split
    · next h => simp at h; simp [h]
    · simp
  | c :: cs, cur, inWs => by
    unfold findWordsAux
    simp only
    split
    · simp [findWordsAux_flatten cs]
    · simp [findWordsAux_flatten cs]

theorem findWords_flatten (s : Str) : (findWords s).flatten = s := by
  simp [findWords, findWordsAux_flatten]

theorem splitInclusiveAux_flatten : ∀ (s cur : Str), (splitInclusiveAux cur s).flatten = cur.reverse ++ s
  | [], cur => by
    unfold splitInclusiveAux
    split
    · next h => simp at h; simp [h]
    · simp
  | c :: cs, cur => by
    unfold splitInclusiveAux
    split
    · simp [splitInclusiveAux_flatten cs]
    · simp [splitInclusiveAux_flatten cs]

theorem splitInclusive_flatten (s : Str) : (splitInclusive s).flatten = s := by
  simp [splitInclusive, splitInclusiveAux_flatten]

/-- non-whitespace content of an accumulator (newest first) -/
def stripAcc (acc : List Str) : Str := strip acc.reverse.flatten

@[simp] theorem stripAcc_cons (x : Str) (acc : List Str) : stripAcc (x :: acc) = stripAcc acc ++ strip x := by
  simp [stripAcc]

theorem strip_trimSpaces (s : Str) : strip (dropWhileEnd (· == ' ') s) = strip s := by
  obtain ⟨t, ht, hp⟩ := dropWhileEnd_spec (· == ' ') s
  conv => rhs; rw [ht]
  have : t.all isWs = true := by
    simp at hp ⊢
    intro c hc; rw [hp c hc]; decide
  simp [strip_eq_nil_of_all this]

theorem stripAcc_trimLast (acc : List Str) : stripAcc (trimLast acc) = stripAcc acc := by
  cases acc with
  | nil => rfl
  | cons l rest => simp [trimLast, strip_trimSpaces]

theorem wrapLoop_strip (cw : Char → Nat) : ∀ (words : List Str) (st : LW) (first : Bool) (acc : List Str),
    (∀ c, st.carry = some c → strip c = []) →
    stripAcc (wrapLoop cw st first acc words).2 = stripAcc acc ++ strip words.flatten ∧
    (wrapLoop cw st first acc words).1.carry = st.carry ∧ (wrapLoop cw st first acc words).1.hard = st.hard
  | [], st, first, acc, _ => by simp [wrapLoop]
  | word :: ws, ⟨hard, lw, carry⟩, first, acc, hc => by
    unfold wrapLoop
    simp only
    split
    · cases carry with
      | some c =>
        simp only
        obtain ⟨h1, h2, h3⟩ := wrapLoop_strip cw ws ⟨hard, byteLen c + displayWidth cw (trimEnd word) + (byteLen word - byteLen (trimEnd word)), some c⟩ false
          (word :: c :: ['\n'] :: trimLast acc) (by simpa using hc)
        refine ⟨?_, by rw [h2], by rw [h3]⟩
        rw [h1]
        simp [stripAcc_trimLast, hc c rfl, strip_cons, isWs]
      | none =>
        simp only
        obtain ⟨h1, h2, h3⟩ := wrapLoop_strip cw ws ⟨hard, displayWidth cw (trimEnd word) + (byteLen word - byteLen (trimEnd word)), none⟩ false
          (word :: ['\n'] :: trimLast acc) (by simp)
        refine ⟨?_, by rw [h2], by rw [h3]⟩
        rw [h1]
        simp [stripAcc_trimLast, strip_cons, isWs]
    · obtain ⟨h1, h2, h3⟩ := wrapLoop_strip cw ws ⟨hard, lw + displayWidth cw (trimEnd word) + (byteLen word - byteLen (trimEnd word)), carry⟩ false
          (word :: acc) (by simpa using hc)
      refine ⟨?_, by rw [h2], by rw [h3]⟩
      rw [h1]; simp

theorem LWwrap_strip (cw : Char → Nat) (st : LW) (words : List Str)
    (hc : ∀ c, st.carry = some c → strip c = []) :
    strip (st.wrap cw words).2.flatten = strip words.flatten ∧
    (∀ c, (st.wrap cw words).1.carry = some c → strip c = []) ∧ (st.wrap cw words).1.hard = st.hard := by
  unfold LW.wrap
  simp only
  -- the state after the carry-over initialisation
  have key : ∀ st1 : LW, (∀ c, st1.carry = some c → strip c = []) → st1.hard = st.hard →
      strip (wrapLoop cw st1 true [] words).2.reverse.flatten = strip words.flatten ∧
      (∀ c, (wrapLoop cw st1 true [] words).1.carry = some c → strip c = []) ∧
      (wrapLoop cw st1 true [] words).1.hard = st.hard := by
    intro st1 h1 hh
    obtain ⟨a, b, c⟩ := wrapLoop_strip cw words st1 true [] h1
    refine ⟨by simpa [stripAcc] using a, by rw [b]; exact h1, by rw [c, hh]⟩
  cases hcar : st.carry with
  | some c0 => exact key st (by simpa using hc) rfl
  | none =>
    cases words with
    | nil => exact key st (by simpa using hc) rfl
    | cons w ws =>
      simp only
      apply key
      · intro c hcc
        simp at hcc
        subst hcc
        split
        · next hall => exact strip_eq_nil_of_all (by simpa using hall)
        · rfl
      · rfl

end Clap.TextWrap
