import ClapModel
import ClapProofs.Lemmas.Wrap
namespace Clap.TextWrap

/-- printable single-column, single-byte text: no control characters, the only whitespace is the space -/
def Plain (cw : Char → Nat) (s : Str) : Prop :=
  ∀ c ∈ s, cw c = 1 ∧ isAsciiControl c = false ∧ utf8Len c = 1 ∧ (isWs c = true → c = ' ')

theorem Plain.cons {cw : Char → Nat} {c : Char} {s : Str} (h : Plain cw (c :: s)) : Plain cw s :=
  fun x hx => h x (List.mem_cons_of_mem _ hx)

theorem displayWidthAux_plain (cw : Char → Nat) (s : Str) (h : Plain cw s) : displayWidthAux cw false s = s.length := by
  induction s with
  | nil => rfl
  | cons c r ih =>
    have hc := h c List.mem_cons_self
    simp only [displayWidthAux, hc.2.1, Bool.false_eq_true, ↓reduceIte, Bool.false_and, hc.1, ih h.cons, List.length_cons]
    omega

theorem byteLen_plain (cw : Char → Nat) (s : Str) (h : Plain cw s) : byteLen s = s.length := by
  induction s with
  | nil => rfl
  | cons c r ih =>
    have hc := h c List.mem_cons_self
    have := ih h.cons
    simp only [byteLen, List.map_cons, List.sum_cons, hc.2.2.1, List.length_cons] at this ⊢
    omega

/-- on plain text trimming whitespace is trimming spaces -/
theorem dropWhileEnd_congr (p q : Char → Bool) (s : Str) (h : ∀ c ∈ s, p c = q c) : dropWhileEnd p s = dropWhileEnd q s := by
  induction s with
  | nil => rfl
  | cons c r ih =>
    have := ih (fun x hx => h x (List.mem_cons_of_mem _ hx))
    simp only [dropWhileEnd, this, h c List.mem_cons_self]

theorem trimEnd_plain (cw : Char → Nat) (s : Str) (h : Plain cw s) : trimEnd s = dropWhileEnd (· == ' ') s := by
  unfold trimEnd
  apply dropWhileEnd_congr
  intro c hc
  have := (h c hc).2.2.2
  by_cases hw : isWs c = true
  · have hc' := this hw
    subst hc'
    decide
  · have : c ≠ ' ' := by intro e; subst e; exact hw (by decide)
    simp [hw, this]

theorem dropWhileEnd_sublist (p : Char → Bool) (s : Str) : ∀ c ∈ dropWhileEnd p s, c ∈ s := by
  obtain ⟨t, ht, _⟩ := dropWhileEnd_spec p s
  intro c hc
  rw [ht]; exact List.mem_append_left _ hc

theorem dropWhileEnd_length_le (p : Char → Bool) (s : Str) : (dropWhileEnd p s).length ≤ s.length := by
  obtain ⟨t, ht, _⟩ := dropWhileEnd_spec p s
  have := congrArg List.length ht
  simp at this; omega

def trimSp (s : Str) : Str := dropWhileEnd (· == ' ') s

/-- lines of the accumulator (newest first; every line newest element first); `['\n']` is the break marker -/
def linesOf : List Str → List (List Str)
  | [] => [[]]
  | e :: r =>
    if e == ['\n'] then [] :: linesOf r
    else match linesOf r with
      | l :: ls => (e :: l) :: ls
      | [] => [[e]]

theorem linesOf_ne_nil (acc : List Str) : linesOf acc ≠ [] := by
  cases acc with
  | nil => simp [linesOf]
  | cons e r =>
    simp only [linesOf]
    split
    · simp
    · split <;> simp

/-- length of a line's text -/
def lineLen (l : List Str) : Nat := (l.map List.length).sum

/-- … with the trailing spaces of its last (newest) element removed -/
def lineTrimLen : List Str → Nat
  | [] => 0
  | e :: older => lineLen older + (trimSp e).length

theorem lineTrimLen_le (l : List Str) : lineTrimLen l ≤ lineLen l := by
  cases l with
  | nil => simp [lineTrimLen, lineLen]
  | cons e r =>
    have := dropWhileEnd_length_le (· == ' ') e
    simp only [lineTrimLen, lineLen, List.map_cons, List.sum_cons, trimSp]
    omega

/-- a line is fine if it fits, or if it is no longer than the hanging indent plus one (trimmed) word -/
def Good (hard carryLen : Nat) (words : List Str) (l : List Str) : Prop :=
  lineTrimLen l ≤ hard ∨ ∃ w ∈ words, lineTrimLen l ≤ carryLen + (trimSp w).length

theorem plain_ne_marker (cw : Char → Nat) (w : Str) (h : Plain cw w) : (w == ['\n']) = false := by
  by_cases e : w = ['\n']
  · subst e
    have := (h '\n' (by simp)).2.1
    simp [isAsciiControl] at this
  · simpa using e

def cur (acc : List Str) : List Str := (linesOf acc).headD []
def fin (acc : List Str) : List (List Str) := (linesOf acc).tail

theorem linesOf_eq (acc : List Str) : linesOf acc = cur acc :: fin acc := by
  unfold cur fin
  cases h : linesOf acc with
  | nil => exact absurd h (linesOf_ne_nil acc)
  | cons l ls => rfl

theorem linesOf_cons_word (cw : Char → Nat) (w : Str) (h : Plain cw w) (acc : List Str) :
    linesOf (w :: acc) = (w :: cur acc) :: fin acc := by
  simp only [linesOf, plain_ne_marker cw w h, Bool.false_eq_true, ↓reduceIte]
  rw [linesOf_eq acc]

theorem linesOf_cons_marker (acc : List Str) : linesOf (['\n'] :: acc) = [] :: cur acc :: fin acc := by
  simp only [linesOf, beq_self_eq_true, ↓reduceIte]
  rw [linesOf_eq acc]

theorem cur_cons_word (cw : Char → Nat) (w : Str) (h : Plain cw w) (acc : List Str) : cur (w :: acc) = w :: cur acc := by
  simp [cur, linesOf_cons_word cw w h acc]
theorem fin_cons_word (cw : Char → Nat) (w : Str) (h : Plain cw w) (acc : List Str) : fin (w :: acc) = fin acc := by
  simp [fin, linesOf_cons_word cw w h acc]
theorem cur_cons_marker (acc : List Str) : cur (['\n'] :: acc) = [] := by simp [cur, linesOf_cons_marker]
theorem fin_cons_marker (acc : List Str) : fin (['\n'] :: acc) = cur acc :: fin acc := by simp [fin, linesOf_cons_marker]

/-- every element of the accumulator is the break marker or plain text -/
def AccOk (cw : Char → Nat) (acc : List Str) : Prop := ∀ e ∈ acc, e = ['\n'] ∨ Plain cw e

theorem plain_trimSp (cw : Char → Nat) (e : Str) (h : Plain cw e) : Plain cw (trimSp e) :=
  fun c hc => h c (dropWhileEnd_sublist _ e c hc)

theorem trimSp_marker : trimSp ['\n'] = ['\n'] := by decide

/-- trimming the newest element can only shorten the current line and leaves the finished ones alone -/
theorem linesOf_trimLast (cw : Char → Nat) (acc : List Str) (hok : AccOk cw acc) :
    lineTrimLen (cur (trimLast acc)) ≤ lineTrimLen (cur acc) ∧ lineLen (cur (trimLast acc)) = lineTrimLen (cur acc) ∧
    fin (trimLast acc) = fin acc ∧ AccOk cw (trimLast acc) := by
  cases acc with
  | nil => exact ⟨Nat.le_refl _, by simp [trimLast, cur, linesOf, lineLen, lineTrimLen], rfl, hok⟩
  | cons e r =>
    rcases hok e List.mem_cons_self with rfl | hp
    · -- the newest element is a marker: nothing changes
      have : trimLast (['\n'] :: r) = ['\n'] :: r := by
        simp only [trimLast]; rw [show dropWhileEnd (fun x => x == ' ') ['\n'] = ['\n'] from trimSp_marker]
      rw [this]
      exact ⟨Nat.le_refl _, by simp [cur_cons_marker, lineLen, lineTrimLen], rfl, hok⟩
    · have hp' := plain_trimSp cw e hp
      have h1 : trimLast (e :: r) = trimSp e :: r := rfl
      rw [h1, cur_cons_word cw _ hp', cur_cons_word cw _ hp, fin_cons_word cw _ hp', fin_cons_word cw _ hp]
      refine ⟨?_, ?_, rfl, ?_⟩
      · have := dropWhileEnd_length_le (· == ' ') (trimSp e)
        simp only [lineTrimLen, trimSp] at this ⊢
        omega
      · simp [lineLen, lineTrimLen]; omega
      · intro x hx
        rcases List.mem_cons.1 hx with rfl | hx
        · exact Or.inr hp'
        · exact hok x (List.mem_cons_of_mem _ hx)

def carryLen (st : LW) : Nat := (st.carry.getD []).length

/-- the loop keeps every line good -/
theorem wrapLoop_good (cw : Char → Nat) (allw : List Str) : ∀ (ws : List Str) (st : LW) (first : Bool) (acc : List Str),
    (∀ w ∈ ws, Plain cw w ∧ w ∈ allw) → AccOk cw acc → (∀ c, st.carry = some c → Plain cw c) →
    (first = true → acc = [] ∧ st.lineWidth = 0) →
    (first = false → st.lineWidth = lineLen (cur acc)) →
    (∀ l ∈ linesOf acc, Good st.hard (carryLen st) allw l) →
    ∀ l ∈ linesOf (wrapLoop cw st first acc ws).2, Good st.hard (carryLen st) allw l
  | [], st, first, acc, _, _, _, _, _, hg => by simpa [wrapLoop] using hg
  | word :: ws, ⟨hard, lw, carry⟩, first, acc, hw, hok, hcar, hfirst, hlw, hg => by
    have hpw := (hw word List.mem_cons_self).1
    have hmem := (hw word List.mem_cons_self).2
    have hws : ∀ w ∈ ws, Plain cw w ∧ w ∈ allw := fun w h => hw w (List.mem_cons_of_mem _ h)
    have htrim : trimEnd word = trimSp word := trimEnd_plain cw word hpw
    have hdw : displayWidth cw (trimEnd word) = (trimSp word).length := by
      rw [htrim]; exact displayWidthAux_plain cw _ (plain_trimSp cw word hpw)
    have hbw : byteLen word = word.length := byteLen_plain cw word hpw
    have hbt : byteLen (trimEnd word) = (trimSp word).length := by rw [htrim]; exact byteLen_plain cw _ (plain_trimSp cw word hpw)
    have hle : (trimSp word).length ≤ word.length := dropWhileEnd_length_le _ word
    unfold wrapLoop
    simp only [hdw, hbw, hbt]
    split
    · -- a break before this word
      next hbr =>
      simp only [Bool.and_eq_true, Bool.not_eq_true', decide_eq_true_eq] at hbr
      obtain ⟨ht1, ht2, ht3, ht4⟩ := linesOf_trimLast cw acc hok
      have hfinished : ∀ l ∈ cur (trimLast acc) :: fin (trimLast acc), Good hard (carryLen ⟨hard, lw, carry⟩) allw l := by
        intro l hl
        rcases List.mem_cons.1 hl with rfl | hl
        · have hc := hg (cur acc) (by rw [linesOf_eq acc]; exact List.mem_cons_self)
          rcases hc with hc | ⟨w, hwm, hc⟩
          · exact Or.inl (Nat.le_trans ht1 hc)
          · exact Or.inr ⟨w, hwm, Nat.le_trans ht1 hc⟩
        · rw [ht3] at hl
          exact hg l (by rw [linesOf_eq acc]; exact List.mem_cons_of_mem _ hl)
      cases carry with
      | some c =>
        have hpc := hcar c rfl
        simp only
        refine wrapLoop_good cw allw ws _ false _ hws ?_ (by simpa using hcar) (by simp) ?_ ?_
        · intro e he
          simp only [List.mem_cons] at he
          rcases he with rfl | rfl | rfl | he
          · exact Or.inr hpw
          · exact Or.inr hpc
          · exact Or.inl rfl
          · exact ht4 e he
        · intro _
          simp only [cur_cons_word cw word hpw, cur_cons_word cw c hpc, cur_cons_marker, lineLen,
            List.map_cons, List.map_nil, List.sum_cons, List.sum_nil, byteLen_plain cw c hpc]
          omega
        · intro l hl
          rw [linesOf_eq, cur_cons_word cw word hpw, cur_cons_word cw c hpc, cur_cons_marker, fin_cons_word cw word hpw,
            fin_cons_word cw c hpc, fin_cons_marker] at hl
          rcases List.mem_cons.1 hl with rfl | hl
          · refine Or.inr ⟨word, hmem, ?_⟩
            simp [lineTrimLen, lineLen, carryLen]
          · exact hfinished l hl
      | none =>
        simp only
        refine wrapLoop_good cw allw ws _ false _ hws ?_ (by simp) (by simp) ?_ ?_
        · intro e he
          simp only [List.mem_cons] at he
          rcases he with rfl | rfl | he
          · exact Or.inr hpw
          · exact Or.inl rfl
          · exact ht4 e he
        · intro _
          simp only [cur_cons_word cw word hpw, cur_cons_marker, lineLen,
            List.map_cons, List.map_nil, List.sum_cons, List.sum_nil]
          omega
        · intro l hl
          rw [linesOf_eq, cur_cons_word cw word hpw, cur_cons_marker, fin_cons_word cw word hpw, fin_cons_marker] at hl
          rcases List.mem_cons.1 hl with rfl | hl
          · refine Or.inr ⟨word, hmem, ?_⟩
            simp [lineTrimLen, lineLen, carryLen]
          · exact hfinished l hl
    · -- the word stays on the current line
      next hnb =>
      refine wrapLoop_good cw allw ws _ false _ hws ?_ hcar (by simp) ?_ ?_
      · intro e he
        rcases List.mem_cons.1 he with rfl | he
        · exact Or.inr hpw
        · exact hok e he
      · intro _
        simp only [cur_cons_word cw word hpw, lineLen, List.map_cons, List.sum_cons]
        cases first with
        | true =>
          obtain ⟨rfl, h0⟩ := hfirst rfl
          simp only at h0
          simp [cur, linesOf, h0]; omega
        | false =>
          have := hlw rfl
          simp only [lineLen] at this
          omega
      · intro l hl
        rw [linesOf_eq, cur_cons_word cw word hpw, fin_cons_word cw word hpw] at hl
        rcases List.mem_cons.1 hl with rfl | hl
        · cases first with
          | true =>
            obtain ⟨rfl, _⟩ := hfirst rfl
            refine Or.inr ⟨word, hmem, ?_⟩
            simp [lineTrimLen, lineLen, cur, linesOf]
          | false =>
            left
            have hl' := hlw rfl
            simp only [Bool.not_false, Bool.true_and, decide_eq_true_eq, Nat.not_lt] at hnb
            simp only [lineTrimLen]
            simp only at hl'
            omega
        · exact hg l (by rw [linesOf_eq acc]; exact List.mem_cons_of_mem _ hl)

/-- the text of the lines (newest line first), joined by newlines -/
def render : List (List Str) → Str
  | [] => []
  | [l] => l.reverse.flatten
  | l :: ls => render ls ++ ['\n'] ++ l.reverse.flatten

/-- **`linesOf` really is the line structure of the output**: the emitted text is the lines joined by `"\n"` -/
theorem flatten_eq_render (acc : List Str) : acc.reverse.flatten = render (linesOf acc) := by
  induction acc with
  | nil => rfl
  | cons e r ih =>
    simp only [List.reverse_cons, List.flatten_append, List.flatten_cons, List.flatten_nil, List.append_nil, ih]
    simp only [linesOf]
    split
    · next he =>
      have : e = ['\n'] := by simpa using he
      subst this
      cases hl : linesOf r with
      | nil => exact absurd hl (linesOf_ne_nil r)
      | cons l ls => simp [render]
    · cases hl : linesOf r with
      | nil => exact absurd hl (linesOf_ne_nil r)
      | cons l ls =>
        cases ls with
        | nil => simp [render]
        | cons l2 ls2 => simp [render, List.append_assoc]

end Clap.TextWrap
