import ClapModel
namespace Clap
open Parser

namespace ArgMap

theorem get_update_self (m : ArgMap) (id : Id) (f : MatchedArg → MatchedArg) :
    (m.update id f).get id = (m.get id).map f := by
  induction m with
  | nil => simp [update, get]
  | cons p ps ih =>
    unfold update get at ih ⊢
    simp only [List.map_cons, List.find?_cons]
    by_cases h : (p.1 == id) = true
    · simp [h]
    · have h' : (p.1 == id) = false := by simpa using h
      simp only [h', Bool.false_eq_true, ↓reduceIte]
      exact ih

theorem contains_iff_get (m : ArgMap) (id : Id) : m.contains id = (m.get id).isSome := by
  induction m with
  | nil => simp [contains, get]
  | cons p ps ih =>
    unfold contains get at ih ⊢
    simp only [List.any_cons, List.find?_cons]
    by_cases h : (p.1 == id) = true
    · simp [h]
    · have h' : (p.1 == id) = false := by simpa using h
      simp only [h', Bool.false_or]
      exact ih

theorem get_append_new (m : ArgMap) (id : Id) (v : MatchedArg) (h : m.contains id = false) :
    (m ++ [(id, v)]).get id = some v := by
  induction m with
  | nil => simp [get]
  | cons p ps ih =>
    simp only [contains, List.any_cons, Bool.or_eq_false_iff] at h
    simp only [get, List.cons_append, List.find?_cons, h.1] at ih ⊢
    exact ih (by simpa [contains] using h.2)

end ArgMap

namespace MatchedArg
theorem newValGroup_ne_nil (m : MatchedArg) : m.newValGroup.rawVals ≠ [] := by simp [newValGroup]
theorem setSource_rawVals (m : MatchedArg) (s : Source) : (m.setSource s).rawVals = m.rawVals := rfl

theorem appendVal_isSome (m : MatchedArg) (v : Bytes) (h : m.rawVals ≠ []) :
    ∃ m', m.appendVal v = some m' ∧ m'.rawVals ≠ [] := by
  unfold appendVal
  cases hr : m.rawVals.reverse with
  | nil => simp at hr; exact absurd hr h
  | cons last before => exact ⟨_, rfl, by simp⟩

theorem pushIndex_rawVals (m : MatchedArg) (i : Nat) : (m.pushIndex i).rawVals = m.rawVals := rfl
end MatchedArg

/-- after `start_custom_arg`/`start_custom_group` the entry exists and has an open value group -/
theorem matcherStart_open (m : ArgMap) (id : Id) (fresh : MatchedArg) (s : Source) :
    ∃ ma, (matcherStart m id fresh s).get id = some ma ∧ ma.rawVals ≠ [] := by
  unfold matcherStart
  simp only [ArgMap.get_update_self]
  by_cases h : m.contains id = true
  · simp only [h, ↓reduceIte]
    rw [ArgMap.contains_iff_get] at h
    cases hg : m.get id with
    | none => simp [hg] at h
    | some ma => exact ⟨_, rfl, MatchedArg.newValGroup_ne_nil _⟩
  · have h' : m.contains id = false := by simpa using h
    simp only [h', Bool.false_eq_true, ↓reduceIte, ArgMap.get_append_new m id fresh h']
    exact ⟨_, rfl, MatchedArg.newValGroup_ne_nil _⟩

end Clap

namespace Clap
open Parser

namespace ArgMap
theorem get_update_other (m : ArgMap) (id id' : Id) (f : MatchedArg → MatchedArg) (h : (id == id') = false) :
    (m.update id f).get id' = m.get id' := by
  induction m with
  | nil => simp [update, get]
  | cons p ps ih =>
    unfold update get at ih ⊢
    simp only [List.map_cons, List.find?_cons]
    by_cases hp : (p.1 == id) = true
    · have : p.1 = id := by simpa using hp
      have hne : (p.1 == id') = false := by rw [this]; exact h
      simp only [hp, ↓reduceIte, hne]
      exact ih
    · have hp' : (p.1 == id) = false := by simpa using hp
      simp only [hp', Bool.false_eq_true, ↓reduceIte]
      by_cases hq : (p.1 == id') = true
      · simp [hq]
      · have hq' : (p.1 == id') = false := by simpa using hq
        simp only [hq']
        exact ih

theorem get_append_other (m : ArgMap) (id id' : Id) (v : MatchedArg) (h : (id == id') = false) :
    (m ++ [(id, v)]).get id' = m.get id' := by
  induction m with
  | nil => simp [get, h]
  | cons p ps ih =>
    unfold get at ih ⊢
    simp only [List.cons_append, List.find?_cons]
    by_cases hq : (p.1 == id') = true
    · simp [hq]
    · have hq' : (p.1 == id') = false := by simpa using hq
      simp only [hq']
      exact ih
end ArgMap

/-- "the entry for `id` exists and has an open value group" -/
def OpenAt (m : ArgMap) (id : Id) : Prop := ∃ ma, m.get id = some ma ∧ ma.rawVals ≠ []

theorem matcherStart_preserves (m : ArgMap) (g : Id) (fresh : MatchedArg) (s : Source) (id : Id)
    (h : OpenAt m id) : OpenAt (matcherStart m g fresh s) id := by
  by_cases hg : (g == id) = true
  · have : g = id := by simpa using hg
    subst this
    exact matcherStart_open m g fresh s
  · have hg' : (g == id) = false := by simpa using hg
    obtain ⟨ma, hget, hne⟩ := h
    refine ⟨ma, ?_, hne⟩
    unfold matcherStart
    rw [ArgMap.get_update_other _ _ _ _ hg']
    split
    · exact hget
    · rw [ArgMap.get_append_other _ _ _ _ hg']; exact hget

theorem update_const_preserves (m : ArgMap) (g : Id) (ma' : MatchedArg) (hne' : ma'.rawVals ≠ []) (id : Id)
    (h : OpenAt m id) : OpenAt (m.update g fun _ => ma') id := by
  obtain ⟨ma, hget, hne⟩ := h
  by_cases hg : (g == id) = true
  · have : g = id := by simpa using hg
    subst this
    exact ⟨ma', by simp [ArgMap.get_update_self, hget], hne'⟩
  · have hg' : (g == id) = false := by simpa using hg
    exact ⟨ma, by rw [ArgMap.get_update_other _ _ _ _ hg']; exact hget, hne⟩

end Clap
