/-
UTF-8: one well-formed scalar sequence at the head of a byte string is split off as one character, whatever follows
(used by the short-cluster attribution theorem of C02 / C08).
-/
import ClapProofs.Lemmas.Utf8L
namespace Clap
namespace Utf8

/-- `x` is exactly one well-formed UTF-8 scalar sequence (decidable: run the scanner on it) -/
def IsChar (x : Bytes) : Prop := scan St.init x = ([x], [])

instance (x : Bytes) : Decidable (IsChar x) := by unfold IsChar; infer_instance

/-- a scan that produces neither a character nor a rest has read nothing -/
theorem scan_nil_nil : ∀ (bs : Bytes) (st : St), scan st bs = ([], []) → bs = []
  | [], _, _ => rfl
  | b :: bs, st, h => by
    exfalso
    unfold scan at h
    split at h
    · split at h
      · simp at h
      · simp [consFst] at h
      · next n lo hi _ =>
        have := scan_nil_nil bs _ h
        subst this
        simp [scan] at h
    · split at h
      · simp [consFst] at h
      · simp at h
    · next n _ =>
      split at h
      · have := scan_nil_nil bs _ h
        subst this
        simp [scan] at h
      · simp at h

/-- if the scanner, from any state, reads `c` as exactly one character `x`, then it does so in front of any
continuation and goes on from the initial state -/
theorem scan_char_append : ∀ (c : Bytes) (st : St) (x : Bytes), scan st c = ([x], []) →
    ∀ rest, scan st (c ++ rest) = consFst x (scan St.init rest)
  | [], st, x, h => by simp [scan] at h
  | b :: bs, st, x, h => by
    intro rest
    rw [List.cons_append]
    unfold scan at h
    conv => lhs; unfold scan
    split at h
    · next hneed =>
      split at h
      · simp at h
      · next heq =>
        simp only [consFst, Prod.mk.injEq, List.cons.injEq] at h
        obtain ⟨⟨hx, h1⟩, h2⟩ := h
        have hbs : bs = [] := scan_nil_nil bs St.init (Prod.ext h1 h2)
        subst hbs
        subst hx
        simp
      · next n lo hi heq =>
        exact scan_char_append bs _ x h rest
    · next hneed =>
      split at h
      · next hin =>
        simp only [hin, and_self, ↓reduceIte]
        simp only [consFst, Prod.mk.injEq, List.cons.injEq] at h
        obtain ⟨⟨hx, h1⟩, h2⟩ := h
        have hbs : bs = [] := scan_nil_nil bs St.init (Prod.ext h1 h2)
        subst hbs
        subst hx
        simp
      · simp at h
    · next n hneed =>
      split at h
      · next hin =>
        simp only [hin, and_self, ↓reduceIte]
        exact scan_char_append bs _ x h rest
      · simp at h

theorem isChar_append {x : Bytes} (h : IsChar x) (rest : Bytes) :
    splitValid (x ++ rest) = consFst x (splitValid rest) :=
  scan_char_append x St.init x h rest

/-- a string of characters followed by anything: the characters come first, then whatever the rest scans to -/
theorem splitValid_chars : ∀ (cs : List Bytes), (∀ c ∈ cs, IsChar c) → ∀ rest,
    splitValid (cs.flatten ++ rest) = (cs ++ (splitValid rest).1, (splitValid rest).2)
  | [], _, rest => by simp
  | c :: cs, h, rest => by
    rw [List.flatten_cons, List.append_assoc, isChar_append (h c List.mem_cons_self),
      splitValid_chars cs (fun c' hc' => h c' (List.mem_cons_of_mem _ hc')) rest]
    simp [consFst]

theorem isChar_ne_nil {x : Bytes} (h : IsChar x) : x ≠ [] := by
  intro hx; subst hx; simp [IsChar, scan] at h

example : IsChar [0x61] ∧ IsChar [0xC3, 0xA9] ∧ IsChar [0xE2, 0x82, 0xAC] ∧ IsChar [0xF0, 0x9F, 0x98, 0x80] ∧
    ¬ IsChar [0xC3] ∧ ¬ IsChar [0x61, 0x62] ∧ ¬ IsChar [0xFF] := by decide

end Utf8
end Clap
