import ClapModel
namespace Clap
namespace Utf8

/-- the scan neither loses nor invents a byte -/
theorem scan_lossless : ∀ (b : Bytes) (st : St), (st.need = 0 → st.cur = []) →
    (scan st b).1.flatten ++ (scan st b).2 = st.cur ++ b
  | [], st, _ => by simp [scan]
  | x :: bs, st, hst => by
    unfold scan
    split
    · next hneed =>
      have hc := hst hneed
      split
      · simp [hc]
      · have := scan_lossless bs St.init (by simp [St.init])
        simp [consFst, hc, this, St.init] at *
      · next n lo hi _ =>
        have := scan_lossless bs ⟨n+1, lo, hi, [x]⟩ (by simp)
        simp [hc] at *
        exact this
    · split
      · have := scan_lossless bs St.init (by simp [St.init])
        simp [consFst, St.init] at *
        simp [this]
      · simp
    · next n _ =>
      split
      · have := scan_lossless bs ⟨n+1, 0x80, 0xBF, st.cur ++ [x]⟩ (by simp)
        simp at *
        exact this
      · simp

theorem splitValid_lossless (b : Bytes) : (chars b).flatten ++ invalidRest b = b := by
  have := scan_lossless b St.init (by simp [St.init])
  simpa [chars, invalidRest, splitValid, St.init] using this

end Utf8
end Clap
