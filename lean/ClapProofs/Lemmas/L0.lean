import ClapModel
namespace Clap
open Bytes

theorem startsWith_iff (h p : Bytes) : startsWith h p = true ↔ ∃ t, h = p ++ t := by
  induction p generalizing h with
  | nil => simp [startsWith]
  | cons x xs ih =>
    cases h with
    | nil => simp [startsWith]
    | cons y ys =>
      simp [startsWith, ih]

theorem stripPrefix_eq_some (h p t : Bytes) : stripPrefix h p = some t ↔ h = p ++ t := by
  induction p generalizing h with
  | nil => simp [stripPrefix]
  | cons x xs ih =>
    cases h with
    | nil => simp [stripPrefix]
    | cons y ys =>
      simp only [stripPrefix]
      split
      · next hxy => have := eq_of_beq hxy; subst this; simp [ih]
      · next hxy => simp at hxy; simp; intro h; exact absurd h hxy

theorem stripPrefix_isSome (h p : Bytes) : (stripPrefix h p).isSome = startsWith h p := by
  induction p generalizing h with
  | nil => simp [stripPrefix, startsWith]
  | cons x xs ih =>
    cases h with
    | nil => simp [stripPrefix, startsWith]
    | cons y ys =>
      simp only [stripPrefix, startsWith]
      split
      · next hxy => simp [hxy, ih]
      · next hxy => simp [hxy]

end Clap

namespace Clap
open Bytes
namespace OsStrExt

theorem scanFrom_some (n : Bytes) : ∀ (h : Bytes) (k i j : Nat), scanFrom n h k i = some j →
    ∃ d, j = i + d ∧ d < k ∧ startsWith (h.drop d) n = true ∧ ∀ e, e < d → startsWith (h.drop e) n = false
  | _, 0, _, _, hh => by simp [scanFrom] at hh
  | h, k+1, i, j, hh => by
    unfold scanFrom at hh
    split at hh
    · next hs => exact ⟨0, by simpa using hh.symm, by omega, by simpa using hs, by intro e he; omega⟩
    · next hs =>
      cases h with
      | nil => simp at hh
      | cons x t =>
        simp only at hh
        obtain ⟨d, hj, hd, hst, hmin⟩ := scanFrom_some n t k (i+1) j hh
        refine ⟨d+1, by omega, by omega, by simpa using hst, ?_⟩
        intro e he
        cases e with
        | zero => simpa using hs
        | succ e => simpa using hmin e (by omega)

theorem scanFrom_none (n : Bytes) : ∀ (h : Bytes) (k i : Nat), scanFrom n h k i = none →
    ∀ d, d < k → startsWith (h.drop d) n = false
  | _, 0, _, _ => by intro d hd; omega
  | h, k+1, i, hh => by
    unfold scanFrom at hh
    split at hh
    · simp at hh
    · next hs =>
      cases h with
      | nil => intro d _; simpa using hs
      | cons x t =>
        simp only at hh
        intro d hd
        cases d with
        | zero => simpa using hs
        | succ d => simpa using scanFrom_none n t k (i+1) hh d (by omega)

theorem startsWith_length {h n : Bytes} (hs : startsWith h n = true) : n.length ≤ h.length := by
  obtain ⟨t, rfl⟩ := (startsWith_iff h n).1 hs
  simp

/-- `find` returns the least offset at which the needle occurs in the bytes -/
theorem find_some {h n : Bytes} {i : Nat} (hf : find h n = some i) :
    startsWith (h.drop i) n = true ∧ (∀ j, j < i → startsWith (h.drop j) n = false) := by
  unfold find at hf
  split at hf
  · obtain ⟨d, hj, _, hst, hmin⟩ := scanFrom_some n h _ 0 i hf
    have : i = d := by omega
    subst this
    exact ⟨hst, hmin⟩
  · simp at hf

theorem find_none {h n : Bytes} (hf : find h n = none) : ∀ j, startsWith (h.drop j) n = false := by
  intro j
  unfold find at hf
  split at hf
  · next hl =>
    have hnone := scanFrom_none n h _ 0 hf
    by_cases hj : j < h.length - n.length + 1
    · exact hnone j hj
    · cases hc : startsWith (h.drop j) n with
      | false => rfl
      | true =>
        have := startsWith_length hc
        rw [List.length_drop] at this
        cases n with
        | nil => have := hnone 0 (by omega); simp [startsWith] at this
        | cons a n' => simp only [List.length_cons] at *; omega
  · next hl =>
    cases hc : startsWith (h.drop j) n with
    | false => rfl
    | true =>
      have := startsWith_length hc
      rw [List.length_drop] at this
      omega

/-- conversely, the least occurrence is what `find` returns -/
theorem find_eq_some_iff (h n : Bytes) (i : Nat) :
    find h n = some i ↔ startsWith (h.drop i) n = true ∧ ∀ j, j < i → startsWith (h.drop j) n = false := by
  constructor
  · exact find_some
  · rintro ⟨hs, hmin⟩
    cases hf : find h n with
    | none => have := find_none hf i; simp [hs] at this
    | some k =>
      obtain ⟨hks, hkmin⟩ := find_some hf
      by_cases h1 : k < i
      · have := hmin k h1; simp [hks] at this
      · by_cases h2 : i < k
        · have := hkmin i h2; simp [hs] at this
        · congr; omega

end OsStrExt
end Clap

namespace Clap
open Bytes
namespace OsStrExt

theorem splitOnce_some {h n a b : Bytes} (hs : splitOnce h n = some (a, b)) :
    h = a ++ n ++ b ∧ a.length + n.length ≤ h.length ∧
      (∀ j, j < a.length → startsWith (h.drop j) n = false) := by
  unfold splitOnce at hs
  cases hf : find h n with
  | none => simp [hf] at hs
  | some i =>
    simp [hf] at hs
    obtain ⟨ha, hb⟩ := hs
    obtain ⟨hst, hmin⟩ := find_some hf
    obtain ⟨t, ht⟩ := (startsWith_iff _ _).1 hst
    have hlen : i + n.length ≤ h.length := by
      cases n with
      | nil =>
        cases i with
        | zero => simp
        | succ k => have := hmin 0 (by omega); simp [startsWith] at this
      | cons x n' =>
        have := congrArg List.length ht
        rw [List.length_drop] at this
        simp only [List.length_append, List.length_cons] at this ⊢
        omega
    have hb' : b = t := by
      rw [← hb, ← List.drop_drop, ht]; simp
    have hal : a.length = i := by rw [← ha]; simp; omega
    refine ⟨?_, by omega, by rw [hal]; exact hmin⟩
    rw [hb', List.append_assoc, ← ht, ← ha]; simp

theorem splitOnce_none {h n : Bytes} (hs : splitOnce h n = none) :
    ∀ j, startsWith (h.drop j) n = false := by
  unfold splitOnce at hs
  cases hf : find h n with
  | none => exact find_none hf
  | some i => simp [hf] at hs

/-- a one-byte needle that never matches inside `a` does not occur in `a` -/
theorem not_mem_of_no_match (c : UInt8) : ∀ (a rest : Bytes),
    (∀ j, j < a.length → startsWith ((a ++ rest).drop j) [c] = false) → c ∉ a
  | [], _, _ => by simp
  | x :: a, rest, hmin => by
    have h0 := hmin 0 (by simp)
    simp [startsWith] at h0
    have ih := not_mem_of_no_match c a rest (by
      intro j hj
      have := hmin (j+1) (by simp; omega)
      simpa using this)
    simp [ih]
    intro hcx; exact h0 hcx.symm

theorem not_mem_of_never (c : UInt8) : ∀ (a : Bytes),
    (∀ j, startsWith (a.drop j) [c] = false) → c ∉ a := by
  intro a hmin
  have := not_mem_of_no_match c a [] (by intro j _; simpa using hmin j)
  exact this

end OsStrExt
end Clap
