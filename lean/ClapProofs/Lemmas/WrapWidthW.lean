import ClapModel
import ClapProofs.Lemmas.WrapWidth
/-!
The width bound of `LineWrapper::wrap` in DISPLAY COLUMNS, for text with characters of any width
(wide, zero-width, multi-byte): the only requirements are that the text holds no ASCII control
character, that its only whitespace is the space, and that the space is one column wide.
`WrapWidth.lean` is the one-column instance.
-/
namespace Clap.TextWrap

/-- no control characters; the only whitespace is the space; the space is one column -/
def SPlain (cw : Char → Nat) (s : Str) : Prop :=
  ∀ c ∈ s, isAsciiControl c = false ∧ (isWs c = true → c = ' ') ∧ (c = ' ' → cw c = 1)

/-- display columns of a text without control characters -/
def dw (cw : Char → Nat) (s : Str) : Nat := (s.map cw).sum

theorem SPlain.cons {cw : Char → Nat} {c : Char} {s : Str} (h : SPlain cw (c :: s)) : SPlain cw s :=
  fun x hx => h x (List.mem_cons_of_mem _ hx)

theorem dw_append (cw : Char → Nat) (a b : Str) : dw cw (a ++ b) = dw cw a + dw cw b := by
  simp [dw]

theorem byteLen_append (a b : Str) : byteLen (a ++ b) = byteLen a + byteLen b := by
  simp [byteLen]

theorem displayWidthAux_splain (cw : Char → Nat) (s : Str) (h : SPlain cw s) : displayWidthAux cw false s = dw cw s := by
  induction s with
  | nil => rfl
  | cons c r ih =>
    have hc := h c List.mem_cons_self
    simp only [displayWidthAux, hc.1, Bool.false_eq_true, ↓reduceIte, Bool.false_and, ih h.cons, dw, List.map_cons, List.sum_cons]

theorem trimEnd_splain (cw : Char → Nat) (s : Str) (h : SPlain cw s) : trimEnd s = trimSp s := by
  unfold trimEnd trimSp
  apply dropWhileEnd_congr
  intro c hc
  have := (h c hc).2.1
  by_cases hw : isWs c = true
  · have hc' := this hw
    subst hc'
    decide
  · have : c ≠ ' ' := by intro e; subst e; exact hw (by decide)
    simp [hw, this]

theorem splain_trimSp (cw : Char → Nat) (e : Str) (h : SPlain cw e) : SPlain cw (trimSp e) :=
  fun c hc => h c (dropWhileEnd_sublist _ e c hc)

/-- a run of spaces of splain text measures its length, in bytes and in columns -/
theorem spaces_measure (cw : Char → Nat) (t : Str) (h : SPlain cw t) (hs : t.all (· == ' ') = true) :
    byteLen t = t.length ∧ dw cw t = t.length := by
  induction t with
  | nil => exact ⟨rfl, rfl⟩
  | cons c r ih =>
    simp only [List.all_cons, Bool.and_eq_true, beq_iff_eq] at hs
    obtain ⟨hc, hr⟩ := hs
    have ⟨i1, i2⟩ := ih h.cons hr
    have hcw := (h c List.mem_cons_self).2.2 hc
    subst hc
    have hu : utf8Len ' ' = 1 := by decide
    simp only [byteLen, List.map_cons, List.sum_cons, hu, dw, hcw, List.length_cons] at i1 i2 ⊢
    omega

/-- the three facts about a word the loop's bookkeeping rests on -/
theorem word_facts (cw : Char → Nat) (w : Str) (h : SPlain cw w) :
    displayWidth cw (trimEnd w) = dw cw (trimSp w) ∧
    byteLen w - byteLen (trimEnd w) = dw cw w - dw cw (trimSp w) ∧
    dw cw (trimSp w) ≤ dw cw w := by
  have ht := trimEnd_splain cw w h
  obtain ⟨t, hwt, hall⟩ := dropWhileEnd_spec (· == ' ') w
  have htp : SPlain cw t := fun c hc => h c (by rw [hwt]; exact List.mem_append_right _ hc)
  obtain ⟨m1, m2⟩ := spaces_measure cw t htp hall
  have hb : byteLen w = byteLen (trimSp w) + byteLen t := by
    conv => lhs; rw [hwt]
    exact byteLen_append _ _
  have hd : dw cw w = dw cw (trimSp w) + dw cw t := by
    conv => lhs; rw [hwt]
    exact dw_append cw _ _
  refine ⟨?_, ?_, ?_⟩
  · rw [ht]; exact displayWidthAux_splain cw _ (splain_trimSp cw w h)
  · rw [ht]; omega
  · omega

/-- columns of a line's text -/
def lineW (cw : Char → Nat) (l : List Str) : Nat := (l.map (dw cw)).sum

/-- … with the trailing spaces of its last (newest) element removed -/
def lineTrimW (cw : Char → Nat) : List Str → Nat
  | [] => 0
  | e :: older => lineW cw older + dw cw (trimSp e)

theorem dw_trimSp_le (cw : Char → Nat) (e : Str) : dw cw (trimSp e) ≤ dw cw e := by
  obtain ⟨t, hwt, _⟩ := dropWhileEnd_spec (· == ' ') e
  have : dw cw e = dw cw (trimSp e) + dw cw t := by
    conv => lhs; rw [hwt]
    exact dw_append cw _ _
  omega

theorem lineTrimW_le (cw : Char → Nat) (l : List Str) : lineTrimW cw l ≤ lineW cw l := by
  cases l with
  | nil => simp [lineTrimW, lineW]
  | cons e r =>
    have := dw_trimSp_le cw e
    simp only [lineTrimW, lineW, List.map_cons, List.sum_cons]
    omega

/-- a line is fine if it fits, or if it is no wider than the hanging indent plus one (trimmed) word -/
def GoodW (cw : Char → Nat) (hard carryLen : Nat) (words : List Str) (l : List Str) : Prop :=
  lineTrimW cw l ≤ hard ∨ ∃ w ∈ words, lineTrimW cw l ≤ carryLen + dw cw (trimSp w)

theorem splain_ne_marker (cw : Char → Nat) (w : Str) (h : SPlain cw w) : (w == ['\n']) = false := by
  by_cases e : w = ['\n']
  · subst e
    have := (h '\n' (by simp)).1
    simp [isAsciiControl] at this
  · simpa using e

theorem linesOf_cons_wordW (cw : Char → Nat) (w : Str) (h : SPlain cw w) (acc : List Str) :
    linesOf (w :: acc) = (w :: cur acc) :: fin acc := by
  simp only [linesOf, splain_ne_marker cw w h, Bool.false_eq_true, ↓reduceIte]
  rw [linesOf_eq acc]

theorem cur_cons_wordW (cw : Char → Nat) (w : Str) (h : SPlain cw w) (acc : List Str) : cur (w :: acc) = w :: cur acc := by
  simp [cur, linesOf_cons_wordW cw w h acc]
theorem fin_cons_wordW (cw : Char → Nat) (w : Str) (h : SPlain cw w) (acc : List Str) : fin (w :: acc) = fin acc := by
  simp [fin, linesOf_cons_wordW cw w h acc]

/-- every element of the accumulator is the break marker or splain text -/
def AccOkW (cw : Char → Nat) (acc : List Str) : Prop := ∀ e ∈ acc, e = ['\n'] ∨ SPlain cw e

theorem trimSp_idem (e : Str) : trimSp (trimSp e) = trimSp e := by
  unfold trimSp
  induction e with
  | nil => rfl
  | cons c r ih =>
    simp only [dropWhileEnd]
    cases hd : dropWhileEnd (fun x => x == ' ') r with
    | nil =>
      simp only
      by_cases hc : (c == ' ') = true
      · simp [hc, dropWhileEnd]
      · simp [hc, dropWhileEnd]
    | cons x xs =>
      simp only
      rw [hd] at ih
      rw [dropWhileEnd, ih]

/-- trimming the newest element can only shorten the current line and leaves the finished ones alone -/
theorem linesOf_trimLastW (cw : Char → Nat) (acc : List Str) (hok : AccOkW cw acc) :
    lineTrimW cw (cur (trimLast acc)) ≤ lineTrimW cw (cur acc) ∧ lineW cw (cur (trimLast acc)) = lineTrimW cw (cur acc) ∧
    fin (trimLast acc) = fin acc ∧ AccOkW cw (trimLast acc) := by
  cases acc with
  | nil => exact ⟨Nat.le_refl _, by simp [trimLast, cur, linesOf, lineW, lineTrimW], rfl, hok⟩
  | cons e r =>
    rcases hok e List.mem_cons_self with rfl | hp
    · have : trimLast (['\n'] :: r) = ['\n'] :: r := by
        simp only [trimLast]; rw [show dropWhileEnd (fun x => x == ' ') ['\n'] = ['\n'] from trimSp_marker]
      rw [this]
      exact ⟨Nat.le_refl _, by simp [cur_cons_marker, lineW, lineTrimW], rfl, hok⟩
    · have hp' := splain_trimSp cw e hp
      have h1 : trimLast (e :: r) = trimSp e :: r := rfl
      rw [h1, cur_cons_wordW cw _ hp', cur_cons_wordW cw _ hp, fin_cons_wordW cw _ hp', fin_cons_wordW cw _ hp]
      refine ⟨?_, ?_, rfl, ?_⟩
      · simp only [lineTrimW, trimSp_idem]
        omega
      · simp [lineW, lineTrimW]; omega
      · intro x hx
        rcases List.mem_cons.1 hx with rfl | hx
        · exact Or.inr hp'
        · exact hok x (List.mem_cons_of_mem _ hx)

/-- the carried indent: splain and all spaces -/
def CarryOk (cw : Char → Nat) (c : Str) : Prop := SPlain cw c ∧ c.all (· == ' ') = true

/-- the loop keeps every line good, in columns -/
theorem wrapLoop_goodW (cw : Char → Nat) (allw : List Str) : ∀ (ws : List Str) (st : LW) (first : Bool) (acc : List Str),
    (∀ w ∈ ws, SPlain cw w ∧ w ∈ allw) → AccOkW cw acc → (∀ c, st.carry = some c → CarryOk cw c) →
    (first = true → acc = [] ∧ st.lineWidth = 0) →
    (first = false → st.lineWidth = lineW cw (cur acc)) →
    (∀ l ∈ linesOf acc, GoodW cw st.hard (carryLen st) allw l) →
    ∀ l ∈ linesOf (wrapLoop cw st first acc ws).2, GoodW cw st.hard (carryLen st) allw l
  | [], st, first, acc, _, _, _, _, _, hg => by simpa [wrapLoop] using hg
  | word :: ws, ⟨hard, lw, carry⟩, first, acc, hw, hok, hcar, hfirst, hlw, hg => by
    have hpw := (hw word List.mem_cons_self).1
    have hmem := (hw word List.mem_cons_self).2
    have hws : ∀ w ∈ ws, SPlain cw w ∧ w ∈ allw := fun w h => hw w (List.mem_cons_of_mem _ h)
    obtain ⟨hdw, hdelta, hle⟩ := word_facts cw word hpw
    unfold wrapLoop
    simp only [hdw, hdelta]
    split
    · -- a break before this word
      next hbr =>
      simp only [Bool.and_eq_true, Bool.not_eq_true', decide_eq_true_eq] at hbr
      obtain ⟨ht1, ht2, ht3, ht4⟩ := linesOf_trimLastW cw acc hok
      have hfinished : ∀ l ∈ cur (trimLast acc) :: fin (trimLast acc), GoodW cw hard (carryLen ⟨hard, lw, carry⟩) allw l := by
        intro l hl
        rcases List.mem_cons.1 hl with rfl | hl
        · have hc := hg (cur acc) (by rw [linesOf_eq acc]; exact List.mem_cons_self)
          rcases hc with hc | ⟨w, hwm, hc⟩
          · exact Or.inl (Nat.le_trans ht1 hc)
          · exact Or.inr ⟨w, hwm, Nat.le_trans ht1 hc⟩
        · rw [ht3] at hl
          exact hg l (by rw [linesOf_eq acc]; exact List.mem_cons_of_mem _ hl)
      cases carry with
      | some c =>
        have hpc := (hcar c rfl).1
        obtain ⟨hcb, hcd⟩ := spaces_measure cw c hpc (hcar c rfl).2
        simp only
        refine wrapLoop_goodW cw allw ws _ false _ hws ?_ (by simpa using hcar) (by simp) ?_ ?_
        · intro e he
          simp only [List.mem_cons] at he
          rcases he with rfl | rfl | rfl | he
          · exact Or.inr hpw
          · exact Or.inr hpc
          · exact Or.inl rfl
          · exact ht4 e he
        · intro _
          simp only [cur_cons_wordW cw word hpw, cur_cons_wordW cw c hpc, cur_cons_marker, lineW,
            List.map_cons, List.map_nil, List.sum_cons, List.sum_nil, hcb, hcd]
          omega
        · intro l hl
          rw [linesOf_eq, cur_cons_wordW cw word hpw, cur_cons_wordW cw c hpc, cur_cons_marker, fin_cons_wordW cw word hpw,
            fin_cons_wordW cw c hpc, fin_cons_marker] at hl
          rcases List.mem_cons.1 hl with rfl | hl
          · refine Or.inr ⟨word, hmem, ?_⟩
            simp [lineTrimW, lineW, carryLen, hcd]
          · exact hfinished l hl
      | none =>
        simp only
        refine wrapLoop_goodW cw allw ws _ false _ hws ?_ (by simp) (by simp) ?_ ?_
        · intro e he
          simp only [List.mem_cons] at he
          rcases he with rfl | rfl | he
          · exact Or.inr hpw
          · exact Or.inl rfl
          · exact ht4 e he
        · intro _
          simp only [cur_cons_wordW cw word hpw, cur_cons_marker, lineW,
            List.map_cons, List.map_nil, List.sum_cons, List.sum_nil]
          omega
        · intro l hl
          rw [linesOf_eq, cur_cons_wordW cw word hpw, cur_cons_marker, fin_cons_wordW cw word hpw, fin_cons_marker] at hl
          rcases List.mem_cons.1 hl with rfl | hl
          · refine Or.inr ⟨word, hmem, ?_⟩
            simp [lineTrimW, lineW, carryLen]
          · exact hfinished l hl
    · -- the word stays on the current line
      next hnb =>
      refine wrapLoop_goodW cw allw ws _ false _ hws ?_ hcar (by simp) ?_ ?_
      · intro e he
        rcases List.mem_cons.1 he with rfl | he
        · exact Or.inr hpw
        · exact hok e he
      · intro _
        simp only [cur_cons_wordW cw word hpw, lineW, List.map_cons, List.sum_cons]
        cases first with
        | true =>
          obtain ⟨rfl, h0⟩ := hfirst rfl
          simp only at h0
          simp [cur, linesOf, h0]; omega
        | false =>
          have := hlw rfl
          simp only [lineW] at this
          omega
      · intro l hl
        rw [linesOf_eq, cur_cons_wordW cw word hpw, fin_cons_wordW cw word hpw] at hl
        rcases List.mem_cons.1 hl with rfl | hl
        · cases first with
          | true =>
            obtain ⟨rfl, _⟩ := hfirst rfl
            refine Or.inr ⟨word, hmem, ?_⟩
            simp [lineTrimW, lineW, cur, linesOf]
          | false =>
            left
            have hl' := hlw rfl
            simp only [Bool.not_false, Bool.true_and, decide_eq_true_eq, Nat.not_lt] at hnb
            simp only [lineTrimW]
            simp only at hl'
            omega
        · exact hg l (by rw [linesOf_eq acc]; exact List.mem_cons_of_mem _ hl)

end Clap.TextWrap
