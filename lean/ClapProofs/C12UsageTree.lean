/-
C12 — the usage line with `flatten_help` always renders: on a built tree every level of which is fit for `usage.rs`
(`UsageOk`), `helpUsageTree` reaches no `unwrap` / `expect` / `debug_assert!` at any depth, whatever the per-level
extras (value names, hidden subcommands, flatten switches) are.
-/
import ClapModel
import ClapProofs.C01
import ClapProofs.C12Usage
namespace Clap.C12U
open Clap Usage Validator

/-- every level of the tree, down to `fuel` levels, is fit for `usage.rs` -/
def TreeUsageOk : Nat → Cmd → Prop
  | 0, _ => True
  | n+1, c => UsageOk c ∧ ∀ s ∈ c.subs, TreeUsageOk n s

theorem relevantWith_snd (m : Option ArgMap) (a : Id) (p : Pred × Id) (x : Id) (h : relevantWith m a p = some x) : x = p.2 := by
  unfold relevantWith at h
  split at h
  · cases h; rfl
  · split at h
    · split at h
      · cases h; rfl
      · cases h
    · cases h

theorem requiredUsageFrom_isSome (c : Cmd) (u : UInfo) (ok : UsageOk c) (m : Option ArgMap) (inclLast : Bool) :
    (requiredUsageFrom c u (requiredGraph c) [] m inclLast).isSome = true := by
  have h0 : ∀ q ∈ unrolledReqs c (requiredGraph c) (relevantWith m) ++ [],
      (c.find q).isSome = true ∨ (c.findGroup q).isSome = true := by
    intro q hq
    simp only [List.append_nil] at hq
    unfold unrolledReqs at hq
    obtain ⟨a, ha, hra⟩ := List.mem_flatMap.mp hq
    rcases List.mem_append.mp hra with h | h
    · rcases unroll_sound c _ _ _ _ _ q h with h | ⟨b, hb, p, hp, hpe⟩
      · cases h
      · have := relevantWith_snd m a p q hpe
        subst this
        exact ok.refs.1 b hb p hp
    · simp only [List.mem_singleton] at h
      exact h ▸ requiredGraph_exists c ok.refs a ha
  unfold requiredUsageFrom
  simp only
  have h1 := groupPass_isSome c u (fun members => members.any (presentIn m)) ok.groups _ [] [] h0
  cases hg : groupPass c u (fun members => members.any (presentIn m))
      (unrolledReqs c (requiredGraph c) (relevantWith m) ++ []) [] [] with
  | none => rw [hg] at h1; cases h1
  | some t =>
    obtain ⟨groups, members⟩ := t
    simp only
    have h2 := argPass_isSome c u members true (skipFor m inclLast) _ [] [] h0
    cases ha : argPass c u members true (skipFor m inclLast)
        (unrolledReqs c (requiredGraph c) (relevantWith m) ++ []) [] [] with
    | none => rw [ha] at h2; cases h2
    | some t2 => rfl

theorem subUsageName_isSome (c : Cmd) (u : UInfo) (ok : UsageOk c) (bin : Bytes) (sc : Cmd) :
    (subUsageName c u bin sc).isSome = true := by
  unfold subUsageName
  simp only [Option.isSome_map]
  have := requiredUsageFrom_isSome c u ok none true
  split
  · exact this
  · rfl

theorem pairSubs_fst_mem : ∀ (ss : List Cmd) (ts : List UTree) (p : Cmd × Option UTree), p ∈ pairSubs ss ts → p.1 ∈ ss := by
  intro ss
  induction ss with
  | nil => intro ts p hp; simp [pairSubs] at hp
  | cons s ss ih =>
    intro ts p hp
    cases ts with
    | nil =>
      simp only [pairSubs, List.mem_cons] at hp
      rcases hp with rfl | hp
      · exact List.mem_cons_self
      · exact List.mem_cons_of_mem _ (ih [] p hp)
    | cons t ts =>
      simp only [pairSubs, List.mem_cons] at hp
      rcases hp with rfl | hp
      · exact List.mem_cons_self
      · exact List.mem_cons_of_mem _ (ih ts p hp)

/-- **the usage line renders with `flatten_help` at any depth**: on a tree whose levels are all fit for `usage.rs` and
whose height the fuel covers, `write_usage_no_title` reaches no `unwrap` / `expect` / `debug_assert!` -/
theorem helpUsageTree_isSome : ∀ (fuel : Nat) (c : Cmd) (t : UTree) (bin : Bytes),
    c.height ≤ fuel → TreeUsageOk fuel c → (helpUsageTree fuel c t bin).isSome = true := by
  intro fuel
  induction fuel with
  | zero => intro c t bin h _; have := C01.height_sub; cases c; simp [Cmd.height] at h
  | succ fuel ih =>
    intro c t bin hh hok
    obtain ⟨ok, hsubs⟩ := hok
    unfold helpUsageTree
    simp only
    cases ho : t.info.overrideUsage with
    | some o => rfl
    | none =>
      simp only
      split
      · -- the flatten branch: the head, then a fold over the visible subcommands
        have hhead : ((if (!c.settings.subcommandRequired || c.settings.argsConflictsWithSubcommands) = true then
            (writeArgUsage c t.info (requiredGraph c) [] true).map fun x => trimEnd x ++ b_SEP else some []).map fun h => (h, true)).isSome = true := by
          split
          · have := writeArgUsage_isSome c t.info ok [] (by intro q hq; cases hq) true
            cases hw : writeArgUsage c t.info (requiredGraph c) [] true with
            | none => rw [hw] at this; cases this
            | some x => rfl
          · rfl
        -- the fold keeps `isSome`
        have key : ∀ (ps : List (Cmd × Option UTree)) (acc : Option (Bytes × Bool)), (∀ p ∈ ps, p.1 ∈ c.subs) → acc.isSome = true →
            (ps.foldl (fun (acc : Option (Bytes × Bool)) (p : Cmd × Option UTree) =>
              match acc with
              | none => none
              | some (sofar, first) =>
                match subUsageName c t.info bin p.1 with
                | none => none
                | some un =>
                  (match p.2 with
                   | none => some (un ++ [32] ++ [91] ++ b_COMMAND ++ [93])
                   | some st => helpUsageTree fuel p.1 (.mk { st.info with usageName := un } st.flatten st.subs) (bin ++ [32] ++ p.1.name)).map
                    fun l => ((if first then sofar else trimEnd sofar ++ b_SEP) ++ l, false)) acc).isSome = true := by
          intro ps
          induction ps with
          | nil => intro acc _ h; exact h
          | cons p ps ihp =>
            intro acc hmem hacc
            simp only [List.foldl_cons]
            apply ihp _ (fun q hq => hmem q (List.mem_cons_of_mem _ hq))
            cases acc with
            | none => cases hacc
            | some a =>
              obtain ⟨sofar, first⟩ := a
              simp only
              have hs := subUsageName_isSome c t.info ok bin p.1
              cases hu : subUsageName c t.info bin p.1 with
              | none => rw [hu] at hs; cases hs
              | some un =>
                simp only
                cases hp2 : p.2 with
                | none => rfl
                | some st =>
                  simp only
                  have hmem1 := hmem p List.mem_cons_self
                  have hlt := C01.height_sub c p.1 hmem1
                  have := ih p.1 (.mk { st.info with usageName := un } st.flatten st.subs) (bin ++ [32] ++ p.1.name)
                    (by omega) (hsubs p.1 hmem1)
                  cases hr : helpUsageTree fuel p.1 (.mk { st.info with usageName := un } st.flatten st.subs) (bin ++ [32] ++ p.1.name) with
                  | none => rw [hr] at this; cases this
                  | some l => rfl
        have hvis : ∀ p ∈ (pairSubs c.subs t.subs).filter (fun p => !t.info.hiddenSubs.contains p.1.name), p.1 ∈ c.subs :=
          fun p hp => pairSubs_fst_mem _ _ p (List.mem_filter.mp hp).1
        rw [Option.isSome_map]
        exact key _ _ hvis hhead
      · -- the plain branch
        have h1 := writeArgUsage_isSome c t.info ok [] (by intro q hq; cases hq) true
        unfold writeHelpUsage
        cases hw : writeArgUsage c t.info (requiredGraph c) [] true with
        | none => rw [hw] at h1; cases h1
        | some sofar =>
          simp only [Option.bind_some]
          unfold writeSubcommandUsage
          have h2 := writeArgUsage_isSome c t.info ok [] (by intro q hq; cases hq) false
          cases hw2 : writeArgUsage c t.info (requiredGraph c) [] false with
          | none => rw [hw2] at h2; cases h2
          | some x =>
            simp only
            split
            · split
              · split <;> rfl
              · split <;> rfl
            · rfl

/-- `render_usage()` of a level of such a tree -/
theorem renderUsageTree_isSome (fuel : Nat) (c : Cmd) (t : UTree) (bin : Bytes) (hh : c.height ≤ fuel) (hok : TreeUsageOk fuel c) :
    (renderUsageTree fuel c t bin).isSome = true := by
  unfold renderUsageTree
  rw [Option.isSome_map]
  exact helpUsageTree_isSome fuel c t bin hh hok

/-! non-vacuity: a two-level tree (`p` with a required option and a visible subcommand `s` that has a positional)
meets the hypotheses with `flatten_help` on -/
def exSub : Cmd := Cmd.mk [115] [] none none [] [] {} [ { id := [105], index := some 1, action := some .set, numVals := some Range.single } ] [] []
def exTree : Cmd :=
  Cmd.mk [112] [] none none [] [] {}
    [ { id := [111], long := some [111, 117, 116], required := true, action := some .set, numVals := some Range.single } ] [] [exSub]

theorem exSub_ok : UsageOk exSub where
  groups := by intro g hg; cases hg
  refs := And.intro (by decide) (by intro g hg; cases hg)
  indexed := by decide

theorem exTree_ok : UsageOk exTree where
  groups := by intro g hg; cases hg
  refs := And.intro (by decide) (by intro g hg; cases hg)
  indexed := by decide

example : TreeUsageOk 2 exTree := by
  refine ⟨exTree_ok, ?_⟩
  intro s hs
  simp only [exTree, Cmd.subs, List.mem_singleton] at hs
  subst hs
  refine ⟨exSub_ok, ?_⟩
  intro s hs
  cases hs

/-- `Usage: p --out <o>` / `p --out <o> s [i]`: the level's own line, then one line per visible subcommand -/
example : renderUsageTree 2 exTree (.mk { usageName := [112] } true [.mk { usageName := [] } false []]) [112] = some
    ([85, 115, 97, 103, 101, 58, 32, 112, 32, 45, 45, 111, 117, 116, 32, 60, 111, 62] ++ (10 :: List.replicate 7 32) ++
     [112, 32, 45, 45, 111, 117, 116, 32, 60, 111, 62, 32, 115, 32, 91, 105, 93]) := by decide

end Clap.C12U
