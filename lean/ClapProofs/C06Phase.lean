/-
C06 — precedence as a frame property of the phases: whatever an earlier phase stored for an argument
(command line, then environment) is exactly what comes out of the later ones (environment, defaults).
-/
import ClapProofs.C07
import ClapProofs.C01Total
namespace Clap.C06
open Clap Parser

theorem get_remove_other (id' : Id) : ∀ (m : ArgMap) (id : Id), (id' == id) = false → (ArgMap.remove id' m).get id = m.get id
  | [], _, _ => rfl
  | p :: ps, id, h => by
    unfold ArgMap.remove
    split
    · next hp =>
      have : (p.1 == id) = false := by
        apply Bool.eq_false_iff.2
        intro h2
        have e1 : p.1 = id' := by simpa using hp
        have e2 : p.1 = id := by simpa using h2
        rw [← e1, e2] at h; simp at h
      simp [ArgMap.get, List.find?_cons, this]
    · simp only [ArgMap.get, List.find?_cons]
      split
      · rfl
      · exact get_remove_other id' ps id h

theorem pushArgValues_other (a : Arg) (id : Id) (h : (a.id == id) = false) : ∀ (vals : List Bytes) (p : P),
    (pushArgValues a vals p).1.args.get id = p.args.get id
  | [], p => by simp [pushArgValues]
  | raw :: rest, p => by
    unfold pushArgValues
    simp only
    split
    · rfl
    · split
      · rfl
      · rw [pushArgValues_other a id h rest]
        simp only
        exact ArgMap.get_update_other _ _ _ _ h

theorem startCustomArg_other (c : Cmd) (a : Arg) (s : Source) (p : P) (id : Id) (hs : (s == .cmdline) = false)
    (h : (a.id == id) = false) (hg : ∀ g ∈ c.groupsForArg a.id, (g == id) = false) :
    (startCustomArg c a s p).1.args.get id = p.args.get id := by
  unfold startCustomArg
  simp only [hs, Bool.false_eq_true, ↓reduceIte]
  split
  · exact C07.get_matcherStart_other _ _ _ _ _ h
  · have := (C07.groupFold_other a s id (c.groupsForArg a.id) (matcherStart p.args a.id { ignoreCase := a.ignoreCase } s, true) hg).1
    split <;> (simp only; rw [this]; exact C07.get_matcherStart_other _ _ _ _ _ h)

theorem reactFinish_other (c : Cmd) (a : Arg) (s : Source) (p : P) (vs : List Bytes) (id : Id)
    (hs : (s == .cmdline) = false) (h : (a.id == id) = false) (hg : ∀ g ∈ c.groupsForArg a.id, (g == id) = false) :
    (reactFinish c a s p vs).1.args.get id = p.args.get id := by
  unfold reactFinish
  have h1 := startCustomArg_other c a s p id hs h hg
  cases hsc : startCustomArg c a s p with
  | mk p1 r =>
    rw [hsc] at h1
    cases r with
    | error e => exact h1
    | ok u =>
      simp only
      have h2 := pushArgValues_other a id h vs p1
      cases hp : pushArgValues a vs p1 with
      | mk p2 r2 =>
        rw [hp] at h2
        cases r2 <;> simp only <;> rw [h2, h1]

/-- **a value from the environment or a default never touches another argument's entry** -/
theorem reactCore_other (c : Cmd) (ident : Option Ident) (s : Source) (a : Arg) (vals : List Bytes) (t : Option Nat)
    (p : P) (id : Id) (hs : (s == .cmdline) = false) (h : (a.id == id) = false)
    (hg : ∀ g ∈ c.groupsForArg a.id, (g == id) = false) :
    (reactCore c ident s a vals t p).1.args.get id = p.args.get id := by
  have rep : ∀ p vs, (reactReplace c a s p vs).1.args.get id = p.args.get id := by
    intro p vs
    unfold reactReplace
    simp only
    split
    · exact get_remove_other a.id _ id h
    · rw [reactFinish_other c a s _ vs id hs h hg]
      exact get_remove_other a.id _ id h
  have bump : ∀ p, (bumpIdx s ident p).args = p.args := by
    intro p; unfold bumpIdx; split <;> rfl
  unfold reactCore
  split
  · rfl
  · simp only
    split
    · rw [rep, bump]
    · rw [reactFinish_other c a s _ _ id hs h hg, bump]
    · rw [rep]
    · rw [rep]
    · rw [reactFinish_other c a s _ _ id hs h hg]
      exact get_remove_other a.id _ id h
    all_goals rfl

/-- group ids and arg ids are kept apart (clap's build assertion "argument group name must be unique"), seen from
one entry: no group an arg belongs to carries this id -/
def NoGroupNamed (c : Cmd) (id : Id) : Prop := ∀ g ∈ c.groups, (g.id == id) = false

theorem groupsForArg_ne {c : Cmd} {id : Id} (h : NoGroupNamed c id) (aid : Id) : ∀ g ∈ c.groupsForArg aid, (g == id) = false := by
  intro g hg
  unfold Cmd.groupsForArg at hg
  obtain ⟨grp, hgrp, rfl⟩ := List.mem_map.1 hg
  exact h grp (List.mem_filter.1 hgrp).1

theorem react_other (c : Cmd) (ident : Option Ident) (s : Source) (a : Arg) (vals : List Bytes) (t : Option Nat)
    (p : P) (id : Id) (hp : p.pending = none) (hs : (s == .cmdline) = false) (h : (a.id == id) = false)
    (hg : NoGroupNamed c id) :
    (react c ident s a vals t p).1.args.get id = p.args.get id ∧ (react c ident s a vals t p).1.pending = none := by
  have hrp : resolvePending c p = (p, .ok ()) := by unfold resolvePending; rw [hp]
  unfold react
  rw [hrp]
  exact ⟨reactCore_other c ident s a vals t p id hs h (groupsForArg_ne hg a.id), by rw [C01.reactCore_pending]; exact hp⟩

theorem contains_of_get {m : ArgMap} {id : Id} {ma : MatchedArg} (h : m.get id = some ma) : m.contains id = true := by
  rw [ArgMap.contains_iff_get, h]; rfl

/-- **the environment pass leaves what is already there alone**: an entry present before `add_env` - stored by the
command line - comes out unchanged: same values, same source, same indices -/
theorem addEnv_keeps (c : Cmd) (id : Id) (ma : MatchedArg) (hg : NoGroupNamed c id) : ∀ (as : List Arg) (p : P),
    p.pending = none → p.args.get id = some ma → (addEnv c as p).1.args.get id = some ma ∧ (addEnv c as p).1.pending = none
  | [], p, hp, h => by simp [addEnv, h, hp]
  | a :: as, p, hp, h => by
    unfold addEnv
    split
    · exact addEnv_keeps c id ma hg as p hp h
    · next hnc =>
      have hne : (a.id == id) = false := by
        apply Bool.eq_false_iff.2
        intro heq
        have : a.id = id := by simpa using heq
        rw [this, contains_of_get h] at hnc
        exact hnc rfl
      split
      · next val _ =>
        obtain ⟨h1, h2⟩ := react_other c none .env a [val] none p id hp (by decide) hne hg
        cases hr : Parser.react c none .env a [val] none p with
        | mk p1 r =>
          rw [hr] at h1 h2
          cases r with
          | error e => exact ⟨by rw [h1]; exact h, h2⟩
          | ok u => exact addEnv_keeps c id ma hg as p1 h2 (by rw [h1]; exact h)
      · exact addEnv_keeps c id ma hg as p hp h

theorem defaultIfLoop_keeps (c : Cmd) (a : Arg) (id : Id) (ma : MatchedArg) (hg : NoGroupNamed c id)
    (hne : (a.id == id) = false) : ∀ (l : List (Id × Pred × Option Bytes)) (p : P), p.pending = none →
    p.args.get id = some ma → ∀ r, defaultIfLoop c a l p = some r → r.1.args.get id = some ma ∧ r.1.pending = none
  | [], p, _, _, r, h => by simp [defaultIfLoop] at h
  | (tid, pred, dflt) :: more, p, hp, hget, r, h => by
    unfold defaultIfLoop at h
    split at h
    · split at h
      · next d =>
        obtain ⟨h1, h2⟩ := react_other c none .default a [d] none p id hp (by decide) hne hg
        cases hr : Parser.react c none .default a [d] none p with
        | mk p1 r1 =>
          rw [hr] at h1 h2 h
          cases r1 <;> (simp at h; subst h; exact ⟨by rw [h1]; exact hget, h2⟩)
      · simp at h; subst h; exact ⟨hget, hp⟩
    · exact defaultIfLoop_keeps c a id ma hg hne more p hp hget r h

theorem addDefaultValue_keeps (c : Cmd) (a : Arg) (id : Id) (ma : MatchedArg) (hg : NoGroupNamed c id) (p : P)
    (hp : p.pending = none) (hget : p.args.get id = some ma) :
    (addDefaultValue c a p).1.args.get id = some ma ∧ (addDefaultValue c a p).1.pending = none := by
  by_cases hid : (a.id == id) = true
  · -- the arg itself: it is in the matcher, so neither kind of default is considered
    have hc : p.args.contains a.id = true := by
      have : a.id = id := by simpa using hid
      rw [this]; exact contains_of_get hget
    unfold addDefaultValue
    simp [hc, hget, hp]
  · have hne : (a.id == id) = false := by simpa using hid
    unfold addDefaultValue
    simp only
    split
    · next r hr =>
      split at hr
      · exact defaultIfLoop_keeps c a id ma hg hne _ p hp hget r hr
      · cases hr
    · split
      · obtain ⟨h1, h2⟩ := react_other c none .default a a.defaultVals none p id hp (by decide) hne hg
        cases hr : Parser.react c none .default a a.defaultVals none p with
        | mk p1 r1 =>
          rw [hr] at h1 h2
          cases r1 <;> exact ⟨by rw [h1]; exact hget, h2⟩
      · exact ⟨hget, hp⟩

/-- **the default pass leaves what is already there alone** - whether it came from the command line or from the
environment -/
theorem addDefaults_keeps (c : Cmd) (id : Id) (ma : MatchedArg) (hg : NoGroupNamed c id) : ∀ (as : List Arg) (p : P),
    p.pending = none → p.args.get id = some ma →
      (addDefaults c as p).1.args.get id = some ma ∧ (addDefaults c as p).1.pending = none
  | [], p, hp, h => by simp [addDefaults, h, hp]
  | a :: as, p, hp, h => by
    unfold addDefaults
    obtain ⟨h1, h2⟩ := addDefaultValue_keeps c a id ma hg p hp h
    cases hr : addDefaultValue c a p with
    | mk p1 r =>
      rw [hr] at h1 h2
      cases r with
      | error e => exact ⟨h1, h2⟩
      | ok u => exact addDefaults_keeps c id ma hg as p1 h2 h1

/-- **command line beats environment beats default**: what the matcher holds for an argument when the token loop
has finished (pending values resolved) is exactly - values, source, indices - what it holds after the environment
and default passes, whatever env vars and defaults this or any other argument declares -/
theorem earlier_phase_wins (c : Cmd) (id : Id) (ma : MatchedArg) (hg : NoGroupNamed c id) (p : P) (hp : p.pending = none)
    (hget : p.args.get id = some ma) :
    (addDefaults c c.args (addEnv c c.args p).1).1.args.get id = some ma := by
  obtain ⟨h1, h2⟩ := addEnv_keeps c id ma hg c.args p hp hget
  exact (addDefaults_keeps c id ma hg c.args _ h2 h1).1

/-- the hypotheses are met: an entry stored by the command line on a command without groups -/
example :
    let c : Cmd := .mk [112] [] none none [] [] {} [{ id := [111], long := some [111], env := some (some [101]), defaultVals := [[100]] }] [] []
    let p : P := { args := [([111], { source := some .cmdline, rawVals := [[[118]]] })] }
    NoGroupNamed c [111] ∧ p.pending = none ∧ ∃ ma, p.args.get [111] = some ma := by
  refine ⟨(by intro g hg; cases hg), rfl, _, rfl⟩

end Clap.C06
