/-
C05 — Everything after `--` is delivered verbatim as positional values.
-/
import ClapModel
namespace Clap.C05
open Clap Parser

/-- the loop ended by dispatching to a (flag/external) subcommand -/
def dispatched : Except EK LoopEnd → Bool
  | .ok (.sub ..) => true
  | .ok (.external ..) => true
  | _ => false

/-- **after the escape nothing is interpreted**: once `trailing_values` is set, no
token - whatever it looks like - is classified as a flag, option, help/version
request or subcommand; the loop can only end by exhausting argv or with an
error raised by the positional machinery. For every command (without external
subcommands), every state and every tail. -/
theorem trailing_never_dispatches (c : Cmd) (similar : Bytes → Bytes → Bool)
    (hext : c.settings.allowExternalSubcommands = false) :
    ∀ (toks : List Bytes) (ls : LoopSt) (p : P), ls.trailing = true → dispatched (loop c similar ls toks p).2 = false := by
  intro toks
  induction toks with
  | nil => intro ls p _; simp [loop, dispatched]
  | cons tok rest ih =>
    intro ls p htr
    rw [loop]
    simp only [htr, ↓reduceIte, Bool.true_or]
    -- the positional part
    split
    · next a _ =>
      split
      · simp [dispatched]
      · split
        · simp [dispatched]
        · split
          · exact ih _ _ rfl
          · split
            · simp [dispatched]
            · split
              · exact ih _ _ rfl
              · exact ih _ _ rfl
    · simp only [hext, Bool.false_eq_true, ↓reduceIte]
      simp [dispatched]

/-- **the first bare `--` switches the loop to positional-only mode** (unless the
arg currently collecting values accepts hyphen values, in which case `--` is one of its values) -/
theorem escape_sets_trailing (c : Cmd) (similar : Bytes → Bytes → Bool) (ls : LoopSt) (rest : List Bytes) (p : P)
    (htr : ls.trailing = false)
    (hsc : (if c.settings.subcommandPrecedenceOverArg || ls.st == .valuesDone
            then possibleSubcommand c [Bytes.dash, Bytes.dash] ls.validArgFound else none) = none)
    (sa : Option Arg) (hsa : stateArg c ls.st = some sa) (hh : (sa.map (·.allowHyphen)).getD false = false) :
    loop c similar ls ([Bytes.dash, Bytes.dash] :: rest) p =
      loop c similar { ls with trailing := true } rest (startTrailing p) := by
  rw [loop]
  have he : ParsedArg.isEscape [Bytes.dash, Bytes.dash] = true := by decide
  simp only [htr, Bool.false_eq_true, ↓reduceIte, hsc, he, hsa, hh]

/-- **a token after the escape is stored byte-for-byte**: with the multi-valued
positional already collecting, the token is appended unchanged to its pending
values (and marked as trailing), whatever its bytes are -/
theorem trailing_push_verbatim (c : Cmd) (similar : Bytes → Bytes → Bool) (ls : LoopSt) (tok : Bytes) (rest : List Bytes)
    (p : P) (a : Arg) (htr : ls.trailing = true)
    (hpos : c.getPos (correctPosCounter c ls rest.head?) = some a) (hmul : a.isMultiple = true)
    (hmv : a.isMultipleValues = true) (hterm : isTerminator a tok = false)
    (pd : Pending) (hpd : p.pending = some pd) (hid : pd.id = a.id) (hident : pd.ident = some .index) :
    loop c similar ls (tok :: rest) p =
      loop c similar { ls with st := .pos a.id, posCounter := correctPosCounter c ls rest.head?, validArgFound := true,
                               trailing := true } rest
        { p with pending := some { pd with rawVals := pd.rawVals ++ [tok],
                                            trailingIdx := some (pd.trailingIdx.getD pd.rawVals.length) } } := by
  rw [loop]
  simp only [htr, ↓reduceIte, hpos, Bool.not_true, Bool.and_false, Bool.false_eq_true, Bool.true_or, hpd, Option.map_some,
    hid, bne_self_eq_false, hmv, Bool.or_self, hterm, pendingPush, Option.getD_some, hident, Option.isSome_some,
    hmul]

/-- the same for the first token the positional receives (nothing pending yet) -/
theorem trailing_first_verbatim (c : Cmd) (similar : Bytes → Bytes → Bool) (ls : LoopSt) (tok : Bytes) (rest : List Bytes)
    (p : P) (a : Arg) (htr : ls.trailing = true)
    (hpos : c.getPos (correctPosCounter c ls rest.head?) = some a) (hmul : a.isMultiple = true)
    (hterm : isTerminator a tok = false) (hpd : p.pending = none) :
    loop c similar ls (tok :: rest) p =
      loop c similar { ls with st := .pos a.id, posCounter := correctPosCounter c ls rest.head?, validArgFound := true,
                               trailing := true } rest
        { p with pending := some { id := a.id, ident := some .index, rawVals := [tok], trailingIdx := some 0 } } := by
  rw [loop]
  simp only [htr, ↓reduceIte, hpos, Bool.not_true, Bool.and_false, Bool.false_eq_true, Bool.true_or, hpd, Option.map_none,
    resolvePending, hterm, pendingPush, hmul]
  simp [hpd]

end Clap.C05
