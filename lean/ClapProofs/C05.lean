/-
C05 — Everything after `--` is delivered verbatim as positional values.
-/
import ClapModel
namespace Clap.C05
open Clap Parser

/-- the loop ended by dispatching to a (flag/external) subcommand -/
def dispatched : Except EK LoopEnd → Bool
  | .ok (.sub ..) => true
  | .ok (.external ..) => true
  | _ => false

/-- **after the escape nothing is interpreted**: once `trailing_values` is set, no
token - whatever it looks like - is classified as a flag, option, help/version
request or subcommand; the loop can only end by exhausting argv or with an
error raised by the positional machinery. For every command (without external
subcommands), every state and every tail. -/
theorem trailing_never_dispatches (c : Cmd) (similar : Bytes → Bytes → Bool)
    (hext : c.settings.allowExternalSubcommands = false) :
    ∀ (toks : List Bytes) (ls : LoopSt) (p : P), ls.trailing = true → dispatched (loop c similar ls toks p).2 = false := by
  intro toks
  induction toks with
  | nil => intro ls p _; simp [loop, dispatched]
  | cons tok rest ih =>
    intro ls p htr
    rw [loop]
    simp only [htr, ↓reduceIte, Bool.true_or]
    -- the positional part
    unfold positionalPart
    simp only [htr, Bool.true_or]
    split
    · next a _ =>
      split
      · simp [dispatched]
      · split
        · simp [dispatched]
        · split
          · exact ih _ _ rfl
          · split
            · simp [dispatched]
            · split
              · exact ih _ _ rfl
              · exact ih _ _ rfl
    · simp only [hext, Bool.false_eq_true, ↓reduceIte]
      simp [dispatched]

/-- **the first bare `--` switches the loop to positional-only mode** (unless the
arg currently collecting values accepts hyphen values, in which case `--` is one of its values) -/
theorem escape_sets_trailing (c : Cmd) (similar : Bytes → Bytes → Bool) (ls : LoopSt) (rest : List Bytes) (p : P)
    (htr : ls.trailing = false)
    (hsc : (if c.settings.subcommandPrecedenceOverArg || ls.st == .valuesDone
            then possibleSubcommand c [Bytes.dash, Bytes.dash] ls.validArgFound else none) = none)
    (sa : Option Arg) (hsa : stateArg c ls.st = some sa) (hh : (sa.map (·.allowHyphen)).getD false = false) :
    loop c similar ls ([Bytes.dash, Bytes.dash] :: rest) p =
      loop c similar { ls with trailing := true } rest (startTrailing p) := by
  rw [loop]
  have he : ParsedArg.isEscape [Bytes.dash, Bytes.dash] = true := by decide
  simp only [htr, Bool.false_eq_true, ↓reduceIte, hsc, he, hsa, hh]

/-- **a token after the escape is stored byte-for-byte**: with the multi-valued
positional already collecting, the token is appended unchanged to its pending
values (and marked as trailing), whatever its bytes are -/
theorem trailing_push_verbatim (c : Cmd) (similar : Bytes → Bytes → Bool) (ls : LoopSt) (tok : Bytes) (rest : List Bytes)
    (p : P) (a : Arg) (htr : ls.trailing = true)
    (hpos : c.getPos (correctPosCounter c ls rest.head?) = some a) (hmul : a.isMultiple = true)
    (hmv : a.isMultipleValues = true) (hterm : isTerminator a tok = false)
    (pd : Pending) (hpd : p.pending = some pd) (hid : pd.id = a.id) (hident : pd.ident = some .index) :
    loop c similar ls (tok :: rest) p =
      loop c similar { ls with st := .pos a.id, posCounter := correctPosCounter c ls rest.head?, validArgFound := true,
                               trailing := true } rest
        { p with pending := some { pd with rawVals := pd.rawVals ++ [tok],
                                            trailingIdx := some (pd.trailingIdx.getD pd.rawVals.length) } } := by
  rw [loop]
  simp only [positionalPart, htr, ↓reduceIte, hpos, Bool.not_true, Bool.and_false, Bool.false_eq_true, Bool.true_or, hpd, Option.map_some,
    hid, bne_self_eq_false, hmv, Bool.or_self, hterm, pendingPush, Option.getD_some, hident, Option.isSome_some,
    hmul]

/-- the same for the first token the positional receives (nothing pending yet) -/
theorem trailing_first_verbatim (c : Cmd) (similar : Bytes → Bytes → Bool) (ls : LoopSt) (tok : Bytes) (rest : List Bytes)
    (p : P) (a : Arg) (htr : ls.trailing = true)
    (hpos : c.getPos (correctPosCounter c ls rest.head?) = some a) (hmul : a.isMultiple = true)
    (hterm : isTerminator a tok = false) (hpd : p.pending = none) :
    loop c similar ls (tok :: rest) p =
      loop c similar { ls with st := .pos a.id, posCounter := correctPosCounter c ls rest.head?, validArgFound := true,
                               trailing := true } rest
        { p with pending := some { id := a.id, ident := some .index, rawVals := [tok], trailingIdx := some 0 } } := by
  rw [loop]
  simp only [positionalPart, htr, ↓reduceIte, hpos, Bool.not_true, Bool.and_false, Bool.false_eq_true, Bool.true_or, hpd, Option.map_none,
    resolvePending, hterm, pendingPush, hmul]
  simp [hpd]

/-- in trailing mode at the last positional the "correct pos_counter" block leaves the counter where it is,
whatever the next token looks like -/
theorem correctPosCounter_last (c : Cmd) (ls : LoopSt) (peek : Option Bytes)
    (htr : ls.trailing = true) (hpc : ls.posCounter = c.positionalCount) :
    correctPosCounter c ls peek = c.positionalCount := by
  unfold correctPosCounter
  simp [hpc, htr]

/-- **the whole tail reaches the last positional, byte for byte and in order**: in trailing mode, with
the command's last positional `a` taking several values (and no terminator) and already collecting,
ANY list of tokens is appended unchanged to its pending values and the loop ends normally - no token is
dropped, reordered, split or interpreted. Induction over the tail; no bound on its length or contents. -/
theorem trailing_tail_collected (c : Cmd) (similar : Bytes → Bytes → Bool) (a : Arg)
    (hpos : c.getPos c.positionalCount = some a) (hmul : a.isMultiple = true) (hmv : a.isMultipleValues = true)
    (hterm : a.terminator = none) :
    ∀ (toks : List Bytes) (ls : LoopSt) (p : P) (pd : Pending), ls.trailing = true → ls.posCounter = c.positionalCount →
      p.pending = some pd → pd.id = a.id → pd.ident = some .index → toks ≠ [] →
      loop c similar ls toks p =
        ({ p with pending := some { pd with rawVals := pd.rawVals ++ toks,
                                            trailingIdx := some (pd.trailingIdx.getD pd.rawVals.length) } }, .ok .done) := by
  intro toks
  induction toks with
  | nil => intro _ _ _ _ _ _ _ _ h; exact absurd rfl h
  | cons tok rest ih =>
    intro ls p pd htr hpc hpd hid hident _
    have hcp := correctPosCounter_last c ls rest.head? htr hpc
    have ht : isTerminator a tok = false := by simp [isTerminator, hterm]
    rw [trailing_push_verbatim c similar ls tok rest p a htr (by rw [hcp]; exact hpos) hmul hmv ht pd hpd hid hident]
    cases rest with
    | nil => simp [loop]
    | cons t2 r2 =>
      rw [ih _ _ { pd with rawVals := pd.rawVals ++ [tok], trailingIdx := some (pd.trailingIdx.getD pd.rawVals.length) }
        rfl (by simpa using hcp) rfl hid hident (by simp)]
      simp

/-- **`--` then anything**: when the last positional takes several values, is next in line and nothing
is pending, the tokens after a bare `--` - whatever they are - become exactly its raw values, in order -/
theorem escape_then_tail (c : Cmd) (similar : Bytes → Bytes → Bool) (a : Arg) (ls : LoopSt) (p : P)
    (tok : Bytes) (toks : List Bytes)
    (hpos : c.getPos c.positionalCount = some a) (hmul : a.isMultiple = true) (hmv : a.isMultipleValues = true)
    (hterm : a.terminator = none)
    (htr : ls.trailing = false) (hst : ls.st = .valuesDone) (hpc : ls.posCounter = c.positionalCount)
    (hpd : p.pending = none)
    (hsc : possibleSubcommand c [Bytes.dash, Bytes.dash] ls.validArgFound = none) :
    loop c similar ls ([Bytes.dash, Bytes.dash] :: tok :: toks) p =
      ({ p with pending := some { id := a.id, ident := some .index, rawVals := tok :: toks, trailingIdx := some 0 } },
        .ok .done) := by
  rw [escape_sets_trailing c similar ls (tok :: toks) p htr (by simp [hst, hsc]) none (by simp [stateArg, hst]) rfl]
  have hst' : startTrailing p = p := by simp [startTrailing, hpd]
  rw [hst']
  have hcp := correctPosCounter_last c { ls with trailing := true } toks.head? rfl hpc
  have ht : isTerminator a tok = false := by simp [isTerminator, hterm]
  rw [trailing_first_verbatim c similar _ tok toks p a rfl (by rw [hcp]; exact hpos) hmul ht hpd]
  cases toks with
  | nil => simp [loop]
  | cons t2 r2 =>
    rw [trailing_tail_collected c similar a hpos hmul hmv hterm (t2 :: r2) _ _
      { id := a.id, ident := some .index, rawVals := [tok], trailingIdx := some 0 } rfl (by simpa using hcp) rfl rfl rfl (by simp)]
    simp

/-- the hypotheses of `escape_then_tail` are met by `prog [files]...` (one positional taking any number of values) -/
example :
    let a : Arg := { id := [102], index := some 1, numVals := some ⟨1, none⟩ }
    let c : Cmd := .mk [112] [] none none [] [] {} [a] [] []
    c.getPos c.positionalCount = some a ∧ a.isMultiple = true ∧ a.isMultipleValues = true ∧ a.terminator = none ∧
      possibleSubcommand c [Bytes.dash, Bytes.dash] false = none := by
  decide

end Clap.C05
