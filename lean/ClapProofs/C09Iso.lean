/-
C09 — level isolation, stated outright: a subcommand's parser is handed the subcommand's own definition, the
tokens after its name and a fresh state; nothing of the parent's matches, pending values or counters.
-/
import ClapProofs.C09
namespace Clap.C09
open Clap Parser

/-- **a subcommand name in the ground state ends this level's loop there**: the tokens after it are not looked at
by this level -/
theorem loop_dispatch_step (c : Cmd) (similar : Bytes → Bytes → Bool) (ls : LoopSt) (name : Bytes) (rest : List Bytes)
    (p : P) (sc : Bytes) (htr : ls.trailing = false) (hst : ls.st = .valuesDone)
    (hps : possibleSubcommand c name ls.validArgFound = some sc)
    (hnh : (sc == Build.b_help && !c.settings.disableHelpSubcommand) = false) :
    loop c similar ls (name :: rest) p = (p, .ok (.sub sc rest false ls.validArgFound)) := by
  rw [loop]
  simp only [htr, Bool.false_eq_true, ↓reduceIte, hst, BEq.rfl, Bool.or_true, hps, hnh]

/-- **each level is parsed against its own definition only**: when this level's loop ends by naming a subcommand
(not through a short-flag cluster), the rest of `Parser::parse` is exactly the subcommand's parser run on the
subcommand's definition `sc`, the remaining tokens and the empty state `{}`; what it returns is attached below this
level's matches unchanged -/
theorem parse_isolates_level (similar : Bytes → Bytes → Bool) (descend : Descend) (c : Cmd) (toks : List Bytes) (p p1 : P)
    (name : Bytes) (rest : List Bytes) (vaf : Bool) (sc : Cmd)
    (hloop : loop c similar {} toks p = (p1, .ok (.sub name rest false vaf)))
    (hnc : (c.settings.argsConflictsWithSubcommands && vaf) = false)
    (hfind : c.findSubcommand name = some sc) :
    parse similar descend c toks p =
      match descend sc rest {} with
      | none => none
      | some (ps, .error e) =>
        (match e with
          | .panic _ => some (p1, .error e)
          | _ => if c.settings.ignoreErrors then some ({ p1 with sub := (sc.name, ps.args) :: ps.sub }, .ok ())
                 else some (p1, .error e))
      | some (ps, .ok ()) => some ({ p1 with sub := (sc.name, ps.args) :: ps.sub }, .ok ()) := by
  unfold parse
  rw [hloop]
  simp only [hnc, Bool.false_eq_true, ↓reduceIte, parseSub, hfind]
  cases descend sc rest {} with
  | none => rfl
  | some r =>
    obtain ⟨ps, e⟩ := r
    cases e with
    | error e => cases e <;> rfl
    | ok u => rfl

end Clap.C09
