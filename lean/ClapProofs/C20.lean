/-
C20 — Text wrapping keeps every word, in order, within the requested width.
Statements quantify over every text (`List Char`), every width and every
character-width function `cw`.
-/
import ClapProofs.Lemmas.Wrap
import ClapProofs.Lemmas.WrapWidth
import ClapProofs.Lemmas.WrapWidthW
namespace Clap.C20
open Clap TextWrap

/-! #### 1. plain text: the non-whitespace characters are unchanged, in order -/

theorem wrapLines_strip (cw : Char → Nat) (hard : Nat) : ∀ lines : List Str,
    strip (wrapLines cw hard lines).flatten = strip lines.flatten
  | [] => by simp [wrapLines]
  | l :: ls => by
    simp only [wrapLines, List.flatten_append, strip_append, List.flatten_cons]
    rw [wrapLines_strip cw hard ls]
    have := (LWwrap_strip cw (LW.new hard) (findWords l) (by simp [LW.new])).1
    rw [this, findWords_flatten]

/-- **every word survives, in order**: wrapping any text to any width never
loses, invents or reorders a non-whitespace character -/
theorem wrap_preserves_words (cw : Char → Nat) (text : Str) (w : Nat) :
    strip (wrap cw text w) = strip text := by
  unfold wrap
  rw [wrapLines_strip, splitInclusive_flatten]

example : wrap (fun _ => 1) "To be, or not to be".toList 10 = "To be, or\nnot to be".toList := by decide
example : strip (wrap (fun _ => 1) "  aaa bbb ccc".toList 6) = "aaabbbccc".toList := by decide

/-! #### 2. styled text: escape sequences intact and in order, visible content preserved -/

def escs : List Seg → List Str
  | [] => []
  | .esc e :: r => e :: escs r
  | .text _ :: r => escs r

def texts : List Seg → Str
  | [] => []
  | .esc _ :: r => texts r
  | .text t :: r => t ++ texts r

theorem styledLines_strip (cw : Char → Nat) : ∀ (lines : List Str) (st : LW) (atStart : Bool),
    (∀ c, st.carry = some c → strip c = []) →
    strip (styledLines cw st atStart lines).2.flatten = strip lines.flatten ∧
    (∀ c, (styledLines cw st atStart lines).1.1.carry = some c → strip c = [])
  | [], st, _, hc => by simp [styledLines]; exact hc
  | l :: ls, st, atStart, hc => by
    unfold styledLines
    simp only
    have h0 : ∀ c, (if atStart then st.reset else st).carry = some c → strip c = [] := by
      split
      · simp [LW.reset]
      · exact hc
    obtain ⟨a1, a2, _⟩ := LWwrap_strip cw (if atStart then st.reset else st) (findWords l) h0
    obtain ⟨b1, b2⟩ := styledLines_strip cw ls ((if atStart then st.reset else st).wrap cw (findWords l)).1 (endsNl l) a2
    refine ⟨?_, b2⟩
    simp only [List.flatten_append, strip_append, List.flatten_cons]
    rw [a1, b1, findWords_flatten]

/-- the styling sequences of the output are those of the input, each intact, in order -/
theorem styled_escapes_preserved (cw : Char → Nat) : ∀ (segs : List Seg) (st : LW) (b : Bool),
    escs (styledSegs cw st b segs) = escs segs
  | [], _, _ => rfl
  | .esc e :: r, st, b => by simp [styledSegs, escs, styled_escapes_preserved cw r st b]
  | .text t :: r, st, b => by simp [styledSegs, escs, styled_escapes_preserved cw r _ _]

/-- the visible (non-whitespace) text between the styling sequences is unchanged -/
theorem styled_preserves_words (cw : Char → Nat) : ∀ (segs : List Seg) (st : LW) (b : Bool),
    (∀ c, st.carry = some c → strip c = []) →
    strip (texts (styledSegs cw st b segs)) = strip (texts segs)
  | [], _, _, _ => rfl
  | .esc e :: r, st, b, hc => by simp [styledSegs, texts, styled_preserves_words cw r st b hc]
  | .text t :: r, st, b, hc => by
    obtain ⟨a, b'⟩ := styledLines_strip cw (splitInclusive t) st b hc
    simp only [styledSegs, texts, strip_append]
    rw [styled_preserves_words cw r _ _ b', a, splitInclusive_flatten]

/-- at the start of a line the wrapper starts afresh: what was wrapped before (its line width, its indent) has no
influence on the lines that follow - also across a change of style (finding F25, repaired) -/
theorem styledLines_fresh (cw : Char → Nat) (st st' : LW) (h : st.hard = st'.hard) (l : Str) (ls : List Str) :
    styledLines cw st true (l :: ls) = styledLines cw st' true (l :: ls) := by
  have hr : st.reset = st'.reset := by simp [LW.reset, h]
  unfold styledLines
  simp only [↓reduceIte, hr]

theorem styledLines_hard (cw : Char → Nat) : ∀ (lines : List Str) (st : LW) (b : Bool),
    (styledLines cw st b lines).1.1.hard = st.hard
  | [], _, _ => rfl
  | l :: ls, st, b => by
    unfold styledLines
    simp only
    rw [styledLines_hard cw ls]
    have : ∀ (s : LW) (ws : List Str), (s.wrap cw ws).1.hard = s.hard := by
      intro s ws
      unfold LW.wrap
      simp only
      have hl : ∀ (ws : List Str) (s : LW) (b : Bool) (acc : List Str), (wrapLoop cw s b acc ws).1.hard = s.hard := by
        intro ws
        induction ws with
        | nil => intro s b acc; simp [wrapLoop]
        | cons w ws ih =>
          intro s b acc
          unfold wrapLoop
          simp only
          split <;> (try split) <;> rw [ih]
      rw [hl]
      split <;> rfl
    rw [this]
    split <;> simp [LW.reset]

/-- whole styled texts: once a line has ended, the rest is wrapped as if nothing had come before -/
theorem styledSegs_fresh (cw : Char → Nat) : ∀ (segs : List Seg) (st st' : LW), st.hard = st'.hard →
    styledSegs cw st true segs = styledSegs cw st' true segs
  | [], _, _, _ => rfl
  | .esc e :: r, st, st', h => by simp [styledSegs, styledSegs_fresh cw r st st' h]
  | .text t :: r, st, st', h => by
    unfold styledSegs
    cases hs : splitInclusive t with
    | nil => simp [styledLines, styledSegs_fresh cw r st st' h]
    | cons l ls => rw [styledLines_fresh cw st st' h l ls]

example : styledWrap (fun _ => 1) [.text "  aa bb\n".toList, .esc "\x1b[1m".toList, .text "cc dd ee".toList] 5 =
    "  aa\n  bb\n\x1b[1mcc dd\nee".toList := by decide

/-- an SGR sequence `ESC [ params m` contributes nothing to the display width -/
theorem displayWidth_sgr_zero (cw : Char → Nat) (params rest : Str) (h : ∀ c ∈ params, c ≠ 'm') :
    displayWidth cw ('\x1b' :: params ++ 'm' :: rest) = displayWidth cw rest := by
  have aux : ∀ ps : Str, (∀ c ∈ ps, c ≠ 'm') →
      displayWidthAux cw true (ps ++ 'm' :: rest) = displayWidthAux cw false rest := by
    intro ps
    induction ps with
    | nil => intro _; simp [displayWidthAux, isAsciiControl]
    | cons p ps ih =>
      intro hp
      have hpm : p ≠ 'm' := hp p (by simp)
      have ih' := ih (fun c hc => hp c (by simp [hc]))
      simp only [List.cons_append, displayWidthAux]
      split
      · exact ih'
      · simp [hpm]; exact ih'
  simp only [displayWidth, List.cons_append, displayWidthAux]
  have : isAsciiControl '\x1b' = true := by decide
  simp [this, aux params h]

example : displayWidth (fun _ => 1) "\x1b[1;31mab\x1b[0m".toList = 2 := by decide

/-! #### 4. within the requested width -/

theorem findWords_plain (cw : Char → Nat) (line : Str) (hp : Plain cw line) : ∀ w ∈ findWords line, Plain cw w := by
  intro w hw c hc
  apply hp c
  rw [← findWords_flatten line]
  exact List.mem_flatten.2 ⟨w, hw, hc⟩

/-- the hanging indent `LineWrapper` carries over to continuation lines: the first word when it is all whitespace -/
def indentOf (words : List Str) : Nat :=
  match words with
  | w :: _ => if w.all isWs then w.length else 0
  | [] => 0

/-- **no line is wider than requested unless a single word is**: wrapping one line of plain text
(printable, one column and one byte per character, spaces the only whitespace) at ANY width yields
lines each of which - trailing spaces aside - either fits the width or is no longer than the hanging
indent plus one word of the input. `linesOf` groups the emitted pieces between the `"\n"` pieces. -/
theorem wrap_line_width (cw : Char → Nat) (hard : Nat) (line : Str) (hp : Plain cw line) :
    ∀ l ∈ linesOf ((LW.new hard).wrap cw (findWords line)).2.reverse,
      lineTrimLen l ≤ hard ∨ ∃ w ∈ findWords line, lineTrimLen l ≤ indentOf (findWords line) + (trimSp w).length := by
  have hwords := findWords_plain cw line hp
  unfold LW.wrap
  simp only [LW.new, List.reverse_reverse]
  cases hws : findWords line with
  | nil =>
    intro l hl
    simp [wrapLoop, linesOf] at hl
    subst hl
    exact Or.inl (Nat.zero_le _)
  | cons w0 rest =>
    simp only
    have hg := wrapLoop_good cw (w0 :: rest) (w0 :: rest)
      ⟨hard, 0, some (if w0.all isWs = true then w0 else [])⟩ true []
      (fun w hw => ⟨hwords w (by rw [hws]; exact hw), hw⟩)
      (by intro e he; simp at he)
      (by
        intro c hc
        simp only [Option.some.injEq] at hc
        subst hc
        split
        · exact hwords w0 (by rw [hws]; exact List.mem_cons_self)
        · intro x hx; simp at hx)
      (by intro _; exact ⟨rfl, rfl⟩)
      (by intro h; simp at h)
      (by
        intro l hl
        simp [linesOf] at hl
        subst hl
        exact Or.inl (Nat.zero_le _))
    intro l hl
    have := hg l hl
    simp only [carryLen, Option.getD_some, indentOf] at this ⊢
    rcases this with h | ⟨w, hw, h⟩
    · exact Or.inl h
    · refine Or.inr ⟨w, hw, ?_⟩
      split at h
      · next hall => simp only [hall, ↓reduceIte]; exact h
      · next hall => simp only [hall, Bool.false_eq_true, ↓reduceIte] ; simpa using h

/-- non-vacuity: "aaa bbb ccc" at width 7 -/
example : (linesOf ((LW.new 7).wrap (fun _ => 1) (findWords "aaa bbb ccc".toList)).2.reverse).map lineTrimLen = [3, 7] := by decide

/-! #### 5. text that fits is left alone -/

/-- on a plain word the wrapper's bookkeeping (display width of the trimmed word plus the trailing bytes) is the word's length -/
theorem plain_word_cost (cw : Char → Nat) (w : Str) (h : Plain cw w) :
    displayWidth cw (trimEnd w) + (byteLen w - byteLen (trimEnd w)) = w.length := by
  have ht := trimEnd_plain cw w h
  have hp : Plain cw (trimSp w) := plain_trimSp cw w h
  have hle := dropWhileEnd_length_le (· == ' ') w
  rw [ht]
  have h1 : displayWidth cw (dropWhileEnd (· == ' ') w) = (dropWhileEnd (· == ' ') w).length :=
    displayWidthAux_plain cw _ hp
  have h2 : byteLen (dropWhileEnd (· == ' ') w) = (dropWhileEnd (· == ' ') w).length := byteLen_plain cw _ hp
  have h3 := byteLen_plain cw w h
  omega

theorem plain_word_width_le (cw : Char → Nat) (w : Str) (h : Plain cw w) : displayWidth cw (trimEnd w) ≤ w.length := by
  have := plain_word_cost cw w h; omega

/-- the loop never breaks a line whose words all fit in what is left of the width -/
theorem wrapLoop_fits (cw : Char → Nat) : ∀ (ws : List Str) (st : LW) (first : Bool) (acc : List Str),
    (∀ w ∈ ws, Plain cw w) → st.lineWidth + (ws.map List.length).sum ≤ st.hard →
    wrapLoop cw st first acc ws =
      ({ st with lineWidth := st.lineWidth + (ws.map List.length).sum }, ws.reverse ++ acc) := by
  intro ws
  induction ws with
  | nil => intro st first acc _ _; simp [wrapLoop]
  | cons w ws ih =>
    intro st first acc hp hfit
    have hw := hp w List.mem_cons_self
    have hcost := plain_word_cost cw w hw
    have hle := plain_word_width_le cw w hw
    simp only [List.map_cons, List.sum_cons] at hfit
    have hno : ¬ (st.hard < st.lineWidth + displayWidth cw (trimEnd w)) := by omega
    unfold wrapLoop
    simp only [hno, decide_false, Bool.and_false, Bool.false_eq_true, ↓reduceIte]
    rw [ih _ false (w :: acc) (fun x hx => hp x (List.mem_cons_of_mem _ hx)) (by simp only; omega)]
    simp only [List.map_cons, List.sum_cons, List.reverse_cons, List.append_assoc, List.singleton_append]
    congr 2
    omega

/-- **text that fits is never broken**: a line of plain text no longer than the width comes out of the wrapper as the
very same words, with no line break inserted and nothing trimmed - so the width bound above is not met by breaking more
often than needed on such lines. -/
theorem wrap_fits_unchanged (cw : Char → Nat) (hard : Nat) (line : Str) (hp : Plain cw line) (hfit : line.length ≤ hard) :
    ((LW.new hard).wrap cw (findWords line)).2 = findWords line := by
  have hwords := findWords_plain cw line hp
  have hsum : ((findWords line).map List.length).sum = line.length := by
    have := congrArg List.length (findWords_flatten line)
    simpa [List.length_flatten] using this
  unfold LW.wrap
  cases hws : findWords line with
  | nil => simp [LW.new, wrapLoop]
  | cons w0 rest =>
    rw [hws] at hwords hsum
    simp only [LW.new]
    rw [wrapLoop_fits cw (w0 :: rest) _ true [] hwords (by simp only; omega)]
    simp

/-- a whole plain line that fits is returned byte for byte -/
theorem wrap_fits_flatten (cw : Char → Nat) (hard : Nat) (line : Str) (hp : Plain cw line) (hfit : line.length ≤ hard) :
    ((LW.new hard).wrap cw (findWords line)).2.flatten = line := by
  rw [wrap_fits_unchanged cw hard line hp hfit, findWords_flatten]

/-- non-vacuity: "aaa  bbb ccc " fits width 13 and is returned as it is; at width 11 it is not -/
example : ((LW.new 13).wrap (fun _ => 1) (findWords "aaa  bbb ccc ".toList)).2.flatten = "aaa  bbb ccc ".toList := by decide
example : ((LW.new 11).wrap (fun _ => 1) (findWords "aaa  bbb ccc ".toList)).2.flatten ≠ "aaa  bbb ccc ".toList := by decide

/-! #### 6. the same for any text, in the wrapper's own measure -/

/-- what `LineWrapper::wrap` adds to `line_width` for a word: the display width of the trimmed word plus the trimmed bytes -/
def wordCost (cw : Char → Nat) (w : Str) : Nat := displayWidth cw (trimEnd w) + (byteLen w - byteLen (trimEnd w))

def lineCost (cw : Char → Nat) (line : Str) : Nat := ((findWords line).map (wordCost cw)).sum

/-- for ANY words - wide, zero-width, control characters, escape sequences included: while the wrapper's own measure of
what is left fits, the loop appends and never breaks -/
theorem wrapLoop_fits_any (cw : Char → Nat) : ∀ (ws : List Str) (st : LW) (first : Bool) (acc : List Str),
    st.lineWidth + (ws.map (wordCost cw)).sum ≤ st.hard →
    wrapLoop cw st first acc ws =
      ({ st with lineWidth := st.lineWidth + (ws.map (wordCost cw)).sum }, ws.reverse ++ acc) := by
  intro ws
  induction ws with
  | nil => intro st first acc _; simp [wrapLoop]
  | cons w ws ih =>
    intro st first acc hfit
    simp only [List.map_cons, List.sum_cons, wordCost] at hfit
    have hno : ¬ (st.hard < st.lineWidth + displayWidth cw (trimEnd w)) := by omega
    unfold wrapLoop
    simp only [hno, decide_false, Bool.and_false, Bool.false_eq_true, ↓reduceIte]
    rw [ih _ false (w :: acc) (by simp only; omega)]
    simp only [List.map_cons, List.sum_cons, List.reverse_cons, List.append_assoc, List.singleton_append, wordCost]
    congr 2
    omega

theorem wrap_line_fits_any (cw : Char → Nat) (hard : Nat) (line : Str) (hfit : lineCost cw line ≤ hard) :
    ((LW.new hard).wrap cw (findWords line)).2 = findWords line := by
  unfold LW.wrap
  unfold lineCost at hfit
  cases hws : findWords line with
  | nil => simp [LW.new, wrapLoop]
  | cons w0 rest =>
    rw [hws] at hfit
    simp only [LW.new]
    rw [wrapLoop_fits_any cw (w0 :: rest) _ true [] (by simp only; omega)]
    simp

/-- **`textwrap::wrap` is the identity on text every line of which fits** - any characters, any number of lines, the
line terminators included (a trailing `"\n"` is trimmed from the last word's width and counted in bytes, as the code does) -/
theorem wrap_fits_identity (cw : Char → Nat) (content : Str) (hard : Nat)
    (hfit : ∀ line ∈ splitInclusive content, lineCost cw line ≤ hard) :
    wrap cw content hard = content := by
  have aux : ∀ lines : List Str, (∀ l ∈ lines, lineCost cw l ≤ hard) → (wrapLines cw hard lines).flatten = lines.flatten := by
    intro lines
    induction lines with
    | nil => intro _; simp [wrapLines]
    | cons l ls ih =>
      intro h
      simp only [wrapLines, List.flatten_append, List.flatten_cons]
      rw [wrap_line_fits_any cw hard l (h l List.mem_cons_self), findWords_flatten,
        ih (fun x hx => h x (List.mem_cons_of_mem _ hx))]
  unfold wrap
  rw [aux _ hfit, splitInclusive_flatten]

/-- on plain text the wrapper's measure of a line is its length (so `wrap_fits_unchanged` is the plain instance) -/
theorem lineCost_plain (cw : Char → Nat) (line : Str) (hp : Plain cw line) : lineCost cw line = line.length := by
  have hwords := findWords_plain cw line hp
  have hsum : ((findWords line).map List.length).sum = line.length := by
    have := congrArg List.length (findWords_flatten line)
    simpa [List.length_flatten] using this
  unfold lineCost
  rw [← hsum]
  congr 1
  apply List.map_congr_left
  intro w hw
  exact plain_word_cost cw w (hwords w hw)

/-- non-vacuity: two lines with a wide character (two columns) fit width 6 and come back unchanged; at width 4 the first line is broken -/
example : (∀ line ∈ splitInclusive "ab 世\ncd".toList, lineCost (fun c => if c == '世' then 2 else 1) line ≤ 6) ∧
    wrap (fun c => if c == '世' then 2 else 1) "ab 世\ncd".toList 6 = "ab 世\ncd".toList := by decide
example : wrap (fun c => if c == '世' then 2 else 1) "ab 世\ncd".toList 4 = "ab\n世\ncd".toList := by decide

/-! #### 7. within the requested width, in display columns (wide and zero-width characters) -/

theorem findWords_splain (cw : Char → Nat) (line : Str) (hp : SPlain cw line) : ∀ w ∈ findWords line, SPlain cw w := by
  intro w hw c hc
  apply hp c
  rw [← findWords_flatten line]
  exact List.mem_flatten.2 ⟨w, hw, hc⟩

/-- **the width bound in display columns**: for one line of text with characters of ANY width (wide, zero-width,
multi-byte) - no control characters, the space the only whitespace and one column wide - wrapping at ANY width yields
lines each of which, trailing spaces aside, either fits the width in columns or is no wider than the hanging indent
plus one word of the input. `wrap_line_width` is the instance where every character is one column and one byte. -/
theorem wrap_line_width_cols (cw : Char → Nat) (hard : Nat) (line : Str) (hp : SPlain cw line) :
    ∀ l ∈ linesOf ((LW.new hard).wrap cw (findWords line)).2.reverse,
      lineTrimW cw l ≤ hard ∨ ∃ w ∈ findWords line, lineTrimW cw l ≤ indentOf (findWords line) + dw cw (trimSp w) := by
  have hwords := findWords_splain cw line hp
  unfold LW.wrap
  simp only [LW.new, List.reverse_reverse]
  cases hws : findWords line with
  | nil =>
    intro l hl
    simp [wrapLoop, linesOf] at hl
    subst hl
    exact Or.inl (Nat.zero_le _)
  | cons w0 rest =>
    simp only
    have hg := wrapLoop_goodW cw (w0 :: rest) (w0 :: rest)
      ⟨hard, 0, some (if w0.all isWs = true then w0 else [])⟩ true []
      (fun w hw => ⟨hwords w (by rw [hws]; exact hw), hw⟩)
      (by intro e he; simp at he)
      (by
        intro c hc
        simp only [Option.some.injEq] at hc
        subst hc
        have hw0 := hwords w0 (by rw [hws]; exact List.mem_cons_self)
        split
        · next hall =>
          refine ⟨hw0, ?_⟩
          rw [List.all_eq_true] at hall ⊢
          intro x hx
          have := (hw0 x hx).2.1 (hall x hx)
          simp [this]
        · exact ⟨fun x hx => by simp at hx, by simp⟩)
      (by intro _; exact ⟨rfl, rfl⟩)
      (by intro h; simp at h)
      (by
        intro l hl
        simp [linesOf] at hl
        subst hl
        exact Or.inl (Nat.zero_le _))
    intro l hl
    have := hg l hl
    simp only [carryLen, Option.getD_some, indentOf] at this ⊢
    rcases this with h | ⟨w, hw, h⟩
    · exact Or.inl h
    · refine Or.inr ⟨w, hw, ?_⟩
      split at h
      · next hall => simp only [hall, ↓reduceIte]; exact h
      · next hall => simp only [hall, Bool.false_eq_true, ↓reduceIte] ; simpa using h

/-- non-vacuity: "世界 bb 世" with two-column ideographs at width 6: lines of 4 and 5 columns -/
example : (linesOf ((LW.new 6).wrap (fun c => if c == '世' || c == '界' then 2 else 1)
    (findWords "世界 bb 世".toList)).2.reverse).map (lineTrimW (fun c => if c == '世' || c == '界' then 2 else 1)) = [5, 4] := by decide
example : SPlain (fun c => if c == '世' || c == '界' then 2 else 1) "世界 bb 世".toList := by unfold SPlain; decide

/-! #### 8. the bound on the text `textwrap::wrap` returns -/

theorem splitInclusiveAux_nonl : ∀ (s cur : Str), (∀ c ∈ s, c ≠ '\n') →
    splitInclusiveAux cur s = if (cur.reverse ++ s).isEmpty then [] else [cur.reverse ++ s]
  | [], cur, _ => by simp [splitInclusiveAux]
  | c :: cs, cur, h => by
    have hc : (c == '\n') = false := by simpa using h c List.mem_cons_self
    unfold splitInclusiveAux
    simp only [hc, Bool.false_eq_true, ↓reduceIte]
    rw [splitInclusiveAux_nonl cs (c :: cur) (fun x hx => h x (List.mem_cons_of_mem _ hx))]
    simp

/-- **end to end for a paragraph without line breaks**: what `textwrap::wrap` returns for such a text IS a list of lines
joined by `"\n"` (`render`), and every one of those lines, trailing spaces aside, fits the width in display columns or is
no wider than the hanging indent plus one word of the text. -/
theorem wrap_width_text (cw : Char → Nat) (content : Str) (hard : Nat) (hp : SPlain cw content) :
    ∃ ls : List (List Str), wrap cw content hard = render ls ∧
      ∀ l ∈ ls, lineTrimW cw l ≤ hard ∨
        ∃ w ∈ findWords content, lineTrimW cw l ≤ indentOf (findWords content) + dw cw (trimSp w) := by
  have hnl : ∀ c ∈ content, c ≠ '\n' := by
    intro c hc e
    subst e
    have := (hp '\n' hc).1
    simp [isAsciiControl] at this
  have hsplit := splitInclusiveAux_nonl content [] hnl
  simp only [List.reverse_nil, List.nil_append] at hsplit
  by_cases he : content.isEmpty = true
  · refine ⟨[], ?_, by intro l hl; simp at hl⟩
    simp [wrap, splitInclusive, hsplit, he, wrapLines, render]
  · refine ⟨linesOf ((LW.new hard).wrap cw (findWords content)).2.reverse, ?_, wrap_line_width_cols cw hard content hp⟩
    rw [← flatten_eq_render]
    simp [wrap, splitInclusive, hsplit, he, wrapLines]

example : wrap (fun _ => 1) "aaa bbb ccc".toList 7 = "aaa bbb\nccc".toList := by decide

/-! #### 9. styled text that fits is left alone -/

theorem LWwrap_fits (cw : Char → Nat) (st : LW) (words : List Str)
    (h : st.lineWidth + (words.map (wordCost cw)).sum ≤ st.hard) :
    (st.wrap cw words).2 = words ∧ (st.wrap cw words).1.hard = st.hard ∧
    (st.wrap cw words).1.lineWidth = st.lineWidth + (words.map (wordCost cw)).sum := by
  unfold LW.wrap
  cases hc : st.carry with
  | some c =>
    simp only
    rw [wrapLoop_fits_any cw words st true [] h]
    simp
  | none =>
    cases words with
    | nil => simp [wrapLoop]
    | cons w ws =>
      simp only
      rw [wrapLoop_fits_any cw (w :: ws) _ true [] (by simpa using h)]
      simp

def linesCost (cw : Char → Nat) (lines : List Str) : Nat := (lines.map (lineCost cw)).sum

theorem styledLines_fits (cw : Char → Nat) : ∀ (lines : List Str) (st : LW) (b : Bool),
    st.lineWidth + linesCost cw lines ≤ st.hard →
    (styledLines cw st b lines).2.flatten = lines.flatten ∧ (styledLines cw st b lines).1.1.hard = st.hard ∧
    (styledLines cw st b lines).1.1.lineWidth ≤ st.lineWidth + linesCost cw lines
  | [], st, b, _ => by simp [styledLines, linesCost]
  | line :: ls, st, b, h => by
    have hcons : linesCost cw (line :: ls) = lineCost cw line + linesCost cw ls := by simp [linesCost]
    have hlc : ((findWords line).map (wordCost cw)).sum = lineCost cw line := rfl
    rw [hcons] at h ⊢
    unfold styledLines
    have h0 : (if b = true then st.reset else st).lineWidth ≤ st.lineWidth ∧ (if b = true then st.reset else st).hard = st.hard := by
      split <;> simp [LW.reset]
    obtain ⟨w1, w2, w3⟩ := LWwrap_fits cw (if b = true then st.reset else st) (findWords line)
      (by rw [hlc]; omega)
    rw [hlc] at w3
    have ih := styledLines_fits cw ls ((if b = true then st.reset else st).wrap cw (findWords line)).1 (endsNl line)
      (by rw [w2, w3]; omega)
    obtain ⟨i1, i2, i3⟩ := ih
    simp only [List.flatten_cons]
    refine ⟨?_, ?_, ?_⟩
    · simp only [List.flatten_append, i1, w1, findWords_flatten]
    · rw [i2, w2]; exact h0.2
    · rw [w3] at i3
      omega

def segsCost (cw : Char → Nat) : List Seg → Nat
  | [] => 0
  | .esc _ :: r => segsCost cw r
  | .text t :: r => linesCost cw (splitInclusive t) + segsCost cw r

theorem styledSegs_fits (cw : Char → Nat) : ∀ (segs : List Seg) (st : LW) (b : Bool),
    st.lineWidth + segsCost cw segs ≤ st.hard →
    flattenSegs (styledSegs cw st b segs) = flattenSegs segs
  | [], _, _, _ => rfl
  | .esc e :: r, st, b, h => by
    simp only [styledSegs, flattenSegs, List.map_cons, List.flatten_cons]
    have := styledSegs_fits cw r st b (by simpa [segsCost] using h)
    simp only [flattenSegs] at this
    rw [this]
  | .text t :: r, st, b, h => by
    simp only [segsCost] at h
    obtain ⟨s1, s2, s3⟩ := styledLines_fits cw (splitInclusive t) st b (by omega)
    have := styledSegs_fits cw r (styledLines cw st b (splitInclusive t)).1.1 (styledLines cw st b (splitInclusive t)).1.2
      (by rw [s2]; omega)
    simp only [styledSegs, flattenSegs, List.map_cons, List.flatten_cons, Seg.chars] at this ⊢
    rw [this, s1, splitInclusive_flatten]

/-- **`StyledStr::wrap` leaves styled text that fits alone**: when the wrapper's own measure of all the text between the
escape sequences fits the width, the result is the input - text and escape sequences, byte for byte - up to the final
`trim_end` the function always applies -/
theorem styled_fits_identity (cw : Char → Nat) (segs : List Seg) (hard : Nat) (h : segsCost cw segs ≤ hard) :
    styledWrap cw segs hard = trimEnd (flattenSegs segs) := by
  unfold styledWrap
  rw [styledSegs_fits cw segs (LW.new hard) false (by simpa [LW.new] using h)]

example : segsCost (fun _ => 1) [.text "aa bb\n".toList, .esc "\x1b[1m".toList, .text "cc dd".toList] = 11 := by decide

/-! #### 10. the tight form: the trailing whitespace of a line's last word (its `"\n"` included) does not count -/

def tightCost (cw : Char → Nat) : List Str → Nat
  | [] => 0
  | [w] => displayWidth cw (trimEnd w)
  | w :: r => wordCost cw w + tightCost cw r

theorem wrapLoop_fits_tight (cw : Char → Nat) : ∀ (ws : List Str) (st : LW) (first : Bool) (acc : List Str),
    st.lineWidth + tightCost cw ws ≤ st.hard → (wrapLoop cw st first acc ws).2 = ws.reverse ++ acc
  | [], st, first, acc, _ => by simp [wrapLoop]
  | [w], st, first, acc, h => by
    simp only [tightCost] at h
    have hno : ¬ (st.hard < st.lineWidth + displayWidth cw (trimEnd w)) := by omega
    unfold wrapLoop
    simp only [hno, decide_false, Bool.and_false, Bool.false_eq_true, ↓reduceIte]
    simp [wrapLoop]
  | w :: w2 :: r, st, first, acc, h => by
    simp only [tightCost, wordCost] at h
    have hno : ¬ (st.hard < st.lineWidth + displayWidth cw (trimEnd w)) := by omega
    unfold wrapLoop
    simp only [hno, decide_false, Bool.and_false, Bool.false_eq_true, ↓reduceIte]
    rw [wrapLoop_fits_tight cw (w2 :: r) _ false (w :: acc) (by simp only; omega)]
    simp

/-- a line is returned word for word as soon as everything up to the end of its last word's visible text fits: a
terminated line of exactly `hard` columns is not broken -/
theorem wrap_line_fits_tight (cw : Char → Nat) (hard : Nat) (line : Str) (hfit : tightCost cw (findWords line) ≤ hard) :
    ((LW.new hard).wrap cw (findWords line)).2 = findWords line := by
  unfold LW.wrap
  cases hws : findWords line with
  | nil => simp [LW.new, wrapLoop]
  | cons w0 rest =>
    rw [hws] at hfit
    simp only [LW.new]
    rw [wrapLoop_fits_tight cw (w0 :: rest) _ true [] (by simp only; omega)]
    simp

example : tightCost (fun _ => 1) (findWords "aaa bbb\n".toList) = 7 ∧ lineCost (fun _ => 1) "aaa bbb\n".toList = 8 := by decide

/-- **`textwrap::wrap` is the identity on text every line of which fits, tight form**: any characters, any number of
lines; a line's terminator and the blanks in front of it do not count -/
theorem wrap_fits_identity_tight (cw : Char → Nat) (content : Str) (hard : Nat)
    (hfit : ∀ line ∈ splitInclusive content, tightCost cw (findWords line) ≤ hard) :
    wrap cw content hard = content := by
  have aux : ∀ lines : List Str, (∀ l ∈ lines, tightCost cw (findWords l) ≤ hard) →
      (wrapLines cw hard lines).flatten = lines.flatten := by
    intro lines
    induction lines with
    | nil => intro _; simp [wrapLines]
    | cons l ls ih =>
      intro h
      simp only [wrapLines, List.flatten_append, List.flatten_cons]
      rw [wrap_line_fits_tight cw hard l (h l List.mem_cons_self), findWords_flatten,
        ih (fun x hx => h x (List.mem_cons_of_mem _ hx))]
  unfold wrap
  rw [aux _ hfit, splitInclusive_flatten]

/-- non-vacuity: two terminated lines of exactly 7 columns at width 7 -/
example : (∀ line ∈ splitInclusive "aaa bbb\nccc ddd\n".toList, tightCost (fun _ => 1) (findWords line) ≤ 7) ∧
    wrap (fun _ => 1) "aaa bbb\nccc ddd\n".toList 7 = "aaa bbb\nccc ddd\n".toList := by decide

end Clap.C20
