/-
C10 / C01 — building a `MissingRequiredArgument` error never fails: on a level that is fit for `usage.rs` (`UsageOk`)
the three collecting passes, `get_required_usage_from` with the matcher and the "smart" usage line reach no `unwrap` /
`expect` / `debug_assert!`, whatever the matches are.
-/
import ClapModel
import ClapProofs.C01Valid
import ClapProofs.C12Usage
import ClapProofs.C12UsageTree
import ClapProofs.C12
namespace Clap.C10E
open Clap Usage Validator C12U

abbrev Exists' (c : Cmd) (q : Id) : Prop := (c.find q).isSome = true ∨ (c.findGroup q).isSome = true

/-- the request list of any required set whose members exist consists of existing ids -/
theorem unrolledReqs_exist (c : Cmd) (refs : RefsOk c) (rel : Id → Pred × Id → Option Id)
    (hrel : ∀ a p x, rel a p = some x → x = p.2) (required : List Id) (hreq : ∀ r ∈ required, Exists' c r) :
    ∀ q ∈ unrolledReqs c required rel, Exists' c q := by
  intro q hq
  unfold unrolledReqs at hq
  obtain ⟨a, ha, hra⟩ := List.mem_flatMap.mp hq
  rcases List.mem_append.mp hra with h | h
  · rcases unroll_sound c _ _ _ _ _ q h with h | ⟨b, hb, p, hp, hpe⟩
    · cases h
    · have := hrel a p q hpe
      subst this
      exact refs.1 b hb p hp
  · simp only [List.mem_singleton] at h
    exact h ▸ hreq a ha

theorem relevantStatic_snd (a : Id) (p : Pred × Id) (x : Id) (h : relevantStatic a p = some x) : x = p.2 := by
  unfold relevantStatic at h
  split at h
  · cases h; rfl
  · cases h

/-- `write_args` for ANY required set and include list of existing ids -/
theorem argParts_isSome_any (c : Cmd) (u : UInfo) (ok : UsageOk c) (required incls : List Id)
    (hreq : ∀ r ∈ required, Exists' c r) (hi : ∀ q ∈ incls, Exists' c q) (fo : Bool) :
    (argParts c u required incls fo).isSome = true := by
  have hall : ∀ q ∈ unrolledReqs c required relevantStatic ++ incls, Exists' c q := by
    intro q hq
    rcases List.mem_append.mp hq with h | h
    · exact unrolledReqs_exist c ok.refs _ relevantStatic_snd required hreq q h
    · exact hi q h
  unfold argParts
  simp only
  have h1 := groupPass_isSome c u (fun _ => false) ok.groups _ [] [] hall
  cases hg : groupPass c u (fun _ => false) (unrolledReqs c required relevantStatic ++ incls) [] [] with
  | none => rw [hg] at h1; cases h1
  | some t =>
    obtain ⟨groups, members⟩ := t
    simp only
    have h2 := argPass_isSome c u members (!fo) (fun _ => false) _ [] [] hall
    cases ha : argPass c u members (!fo) (fun _ => false) (unrolledReqs c required relevantStatic ++ incls) [] [] with
    | none => rw [ha] at h2; cases h2
    | some t2 =>
      obtain ⟨opts, pos0⟩ := t2
      simp only
      have h3 := posPass_isSome u members fo c.positionals pos0 ok.indexed
      cases hp : posPass u members fo c.positionals pos0 with
      | none => rw [hp] at h3; cases h3
      | some pos => rfl

theorem usageWithTitle_isSome_any (c : Cmd) (u : UInfo) (ok : UsageOk c) (required used : List Id)
    (hreq : ∀ r ∈ required, Exists' c r) (hu : ∀ q ∈ used, Exists' c q) :
    (usageWithTitle c u required used).isSome = true := by
  have hA : ∀ (inc : List Id) (b : Bool), (∀ q ∈ inc, Exists' c q) → (writeArgUsage c u required inc b).isSome = true := by
    intro inc b hinc
    have h := argParts_isSome_any c u ok required inc hreq hinc (!b)
    unfold writeArgUsage writeArgs argPieces
    cases hp : argParts c u required inc (!b) with
    | none => rw [hp] at h; cases h
    | some t => rfl
  unfold usageWithTitle usageNoTitle
  rw [Option.isSome_map]
  cases u.overrideUsage with
  | some o => rfl
  | none =>
    simp only
    split
    · -- help usage
      unfold writeHelpUsage
      have h1 := hA [] true (by intro q hq; cases hq)
      cases hw : writeArgUsage c u required [] true with
      | none => rw [hw] at h1; cases h1
      | some sofar =>
        simp only [Option.bind_some]
        unfold writeSubcommandUsage
        have h2 := hA [] false (by intro q hq; cases hq)
        cases hw2 : writeArgUsage c u required [] false with
        | none => rw [hw2] at h2; cases h2
        | some x =>
          simp only
          split
          · split
            · split <;> rfl
            · split <;> rfl
          · rfl
    · unfold writeSmartUsage
      have h1 := hA used true hu
      cases hw : writeArgUsage c u required used true with
      | none => rw [hw] at h1; cases h1
      | some x => rfl

/-- `get_required_usage_from` for ANY required set and include list of existing ids, with any matcher -/
theorem requiredUsageFrom_isSome_any (c : Cmd) (u : UInfo) (ok : UsageOk c) (required incls : List Id)
    (hreq : ∀ r ∈ required, Exists' c r) (hi : ∀ q ∈ incls, Exists' c q) (m : Option ArgMap) (inclLast : Bool) :
    (requiredUsageFrom c u required incls m inclLast).isSome = true := by
  have h0 : ∀ q ∈ unrolledReqs c required (relevantWith m) ++ incls, Exists' c q := by
    intro q hq
    rcases List.mem_append.mp hq with h | h
    · exact unrolledReqs_exist c ok.refs _ (relevantWith_snd m) required hreq q h
    · exact hi q h
  unfold requiredUsageFrom
  simp only
  have h1 := groupPass_isSome c u (fun members => members.any (presentIn m)) ok.groups _ [] [] h0
  cases hg : groupPass c u (fun members => members.any (presentIn m))
      (unrolledReqs c required (relevantWith m) ++ incls) [] [] with
  | none => rw [hg] at h1; cases h1
  | some t =>
    obtain ⟨groups, members⟩ := t
    simp only
    have h2 := argPass_isSome c u members true (skipFor m inclLast) _ [] [] h0
    cases ha : argPass c u members true (skipFor m inclLast)
        (unrolledReqs c required (relevantWith m) ++ incls) [] [] with
    | none => rw [ha] at h2; cases h2
    | some t2 => rfl

/-! ### the collecting passes -/

theorem missingPass1_spec (c : Cmd) (wg : C01.GroupsOk c) (m : ArgMap) (pot : List (Id × List Id)) (excl : Bool) :
    ∀ (rs acc : List Id) (hi : Nat), (∀ x ∈ acc, Exists' c x) →
    ∃ acc' hi', missingPass1 c m pot excl rs acc hi = some (acc', hi') ∧ ∀ x ∈ acc', Exists' c x := by
  intro rs
  induction rs with
  | nil => intro acc hi h; exact ⟨acc, hi, rfl, h⟩
  | cons r rs ih =>
    intro acc hi h
    unfold missingPass1
    split
    · exact ih acc hi h
    · split
      · next a hf =>
        have hex : Exists' c a.id := Or.inl (find_isSome_of_mem (C03.find_mem hf).1)
        have hsome := C01.isMissingRequiredOk_isSome c pot a
        cases hok : isMissingRequiredOk c pot a with
        | none => rw [hok] at hsome; cases hsome
        | some ok =>
          simp only
          split
          · apply ih
            intro x hx
            rcases List.mem_append.mp hx with hx | hx
            · exact h x hx
            · simp only [List.mem_singleton] at hx; exact hx ▸ hex
          · exact ih acc hi h
      · split
        · next g hg =>
          have hgm := C01.findGroup_mem_of hg
          have hex : Exists' c g.id := Or.inr (findGroup_isSome_of_mem hgm)
          have hsome : (argsInGroup c g.id).isSome = true :=
            C01.unrollArgsInGroup_isSome c wg _ [g.id] [] (by intro x hx; simp only [List.mem_singleton] at hx; exact hx ▸ findGroup_isSome_of_mem hgm)
          cases ha : argsInGroup c g.id with
          | none => rw [ha] at hsome; cases hsome
          | some members =>
            simp only
            split
            · apply ih
              intro x hx
              rcases List.mem_append.mp hx with hx | hx
              · exact h x hx
              · simp only [List.mem_singleton] at hx; exact hx ▸ hex
            · exact ih acc hi h
        · exact ih acc hi h

theorem missingPass2_exist (c : Cmd) (m : ArgMap) (excl : Bool) : ∀ (as : List Arg) (acc : List Id) (hi : Nat),
    (∀ a ∈ as, a ∈ c.args) → (∀ x ∈ acc, Exists' c x) → ∀ x ∈ (missingPass2 m excl as acc hi).1, Exists' c x := by
  intro as
  induction as with
  | nil => intro acc hi _ h; simpa [missingPass2] using h
  | cons a as ih =>
    intro acc hi hmem h
    unfold missingPass2
    have hrest := fun b hb => hmem b (List.mem_cons_of_mem a hb)
    split
    · apply ih _ _ hrest
      intro x hx
      rcases List.mem_append.mp hx with hx | hx
      · exact h x hx
      · simp only [List.mem_singleton] at hx
        exact hx ▸ Or.inl (find_isSome_of_mem (hmem a List.mem_cons_self))
    · exact ih acc hi hrest h

/-- the list of missing ids can always be computed, and every id in it exists -/
theorem missingRequired_isSome (c : Cmd) (wg : C01.GroupsOk c) (m : ArgMap) (pot : List (Id × List Id)) :
    ∃ l, missingRequired c m pot = some l ∧ ∀ x ∈ l, Exists' c x := by
  unfold missingRequired
  simp only
  obtain ⟨acc1, hi1, h1, hex1⟩ := missingPass1_spec c wg m pot (isExclusivePresent c m) (requiredIds c m) [] 0 (by intro x hx; cases hx)
  rw [h1]
  simp only
  refine ⟨_, rfl, ?_⟩
  intro x hx
  rcases List.mem_append.mp hx with hx | hx
  · exact missingPass2_exist c m _ c.args acc1 hi1 (fun a ha => ha) hex1 x hx
  · split at hx
    · cases hx
    · obtain ⟨p, hp, rfl⟩ := List.mem_map.mp hx
      exact Or.inl (find_isSome_of_mem (positionals_mem c p (List.mem_filter.mp hp).1).1)

/-- the validator's required set (the command's own graph plus what the explicit args and groups require) consists of
existing ids -/
theorem requiredIds_exist (c : Cmd) (refs : RefsOk c) (m : ArgMap) : ∀ r ∈ requiredIds c m, Exists' c r := by
  intro r hr
  unfold requiredIds at hr
  rcases (C12.mem_customHeadings_fold _ r _).mp hr with h | h
  · exact requiredGraph_exists c refs r h
  · unfold gatherRequires at h
    obtain ⟨p, _, hp⟩ := List.mem_flatMap.mp h
    split at hp
    · rcases unroll_sound c _ _ _ _ _ r hp with h' | ⟨b, hb, q, hq, hqe⟩
      · cases h'
      · split at hqe
        · cases hqe; exact refs.1 b hb q hq
        · cases hqe
    · split at hp
      · next g hg => exact refs.2 g (C01.findGroup_mem_of hg) r hp
      · cases hp

/-- **building the `MissingRequiredArgument` error never fails**: the list of missing ids, the strings of
`get_required_usage_from` and the "smart" usage line are all defined, for any matches -/
theorem missingRequiredError_isSome (c : Cmd) (u : UInfo) (ok : UsageOk c) (m : ArgMap) (pot : List (Id × List Id)) :
    (missingRequiredError c u m pot).isSome = true := by
  obtain ⟨missing, hm, hex⟩ := missingRequired_isSome c ok.groups m pot
  have hreq := requiredIds_exist c ok.refs m
  unfold missingRequiredError
  rw [hm]
  simp only
  have h1 := requiredUsageFrom_isSome_any c u ok (requiredIds c m) missing hreq hex (some m) true
  cases hr : requiredUsageFrom c u (requiredIds c m) missing (some m) true with
  | none => rw [hr] at h1; cases h1
  | some reqArgs =>
    simp only
    rw [Option.isSome_map]
    apply usageWithTitle_isSome_any c u ok _ _ hreq
    intro q hq
    rcases List.mem_append.mp hq with hq | hq
    · have := (List.mem_filter.mp hq).2
      cases hf : c.find q with
      | none => simp [hf] at this
      | some a => exact Or.inl (by simp [hf])
    · exact hex q hq


/-! ### the validator's conflict error -/

/-- `unroll_args_in_group` collects args only -/
theorem unrollArgsInGroup_args (c : Cmd) : ∀ (fuel : Nat) (gvec args res : List Id),
    (∀ x ∈ args, (c.find x).isSome = true) → unrollArgsInGroup c fuel gvec args = some res →
    ∀ x ∈ res, (c.find x).isSome = true := by
  intro fuel
  induction fuel with
  | zero =>
    intro gvec args res h hr
    cases gvec <;> (simp only [unrollArgsInGroup, Option.some.injEq] at hr; subst hr; exact h)
  | succ fuel ih =>
    intro gvec args res h hr
    cases gvec with
    | nil => simp only [unrollArgsInGroup, Option.some.injEq] at hr; subst hr; exact h
    | cons g gs =>
      unfold unrollArgsInGroup at hr
      split at hr
      · cases hr
      · next grp _ =>
        simp only at hr
        refine ih _ _ res ?_ hr
        -- the fold adds to the first component only ids that `find` knows
        have key : ∀ (ns : List Id) (acc : List Id × List Id), (∀ x ∈ acc.1, (c.find x).isSome = true) →
            ∀ x ∈ (ns.foldl (fun (acc : List Id × List Id) n =>
              if acc.1.contains n then acc
              else if (c.find n).isSome then (acc.1 ++ [n], acc.2)
              else (acc.1, n :: acc.2)) acc).1, (c.find x).isSome = true := by
          intro ns
          induction ns with
          | nil => intro acc h' x hx; exact h' x hx
          | cons n ns ihn =>
            intro acc h'
            simp only [List.foldl_cons]
            apply ihn
            split
            · exact h'
            · split
              · next hfn =>
                intro x hx
                rcases List.mem_append.mp hx with hx | hx
                · exact h' x hx
                · simp only [List.mem_singleton] at hx; exact hx ▸ hfn
              · exact h'
        exact key grp.args (args, []) h

theorem argsInGroup_args (c : Cmd) (g : Id) (ms : List Id) (h : argsInGroup c g = some ms) :
    ∀ x ∈ ms, (c.find x).isSome = true :=
  unrollArgsInGroup_args c _ [g] [] ms (by intro x hx; cases hx) h

/-- the ids `build_conflict_err` lists are args, when the conflicting ids exist -/
theorem conflictOthers_spec (c : Cmd) (wg : C01.GroupsOk c) : ∀ (confs seen : List Id),
    (∀ x ∈ confs, Exists' c x) → (∀ x ∈ seen, (c.find x).isSome = true) →
    ∃ res, conflictOthers c confs seen = some res ∧ ∀ x ∈ res, (c.find x).isSome = true := by
  intro confs
  induction confs with
  | nil => intro seen _ hs; exact ⟨seen, rfl, hs⟩
  | cons cid rest ih =>
    intro seen hc hs
    have hrest := fun x hx => hc x (List.mem_cons_of_mem cid hx)
    unfold conflictOthers
    simp only
    have dedupe : ∀ (ids acc : List Id), (∀ x ∈ ids, (c.find x).isSome = true) → (∀ x ∈ acc, (c.find x).isSome = true) →
        ∀ x ∈ ids.foldl (fun acc i => if acc.contains i then acc else acc ++ [i]) acc, (c.find x).isSome = true := by
      intro ids acc hi ha x hx
      rcases (C12.mem_customHeadings_fold ids x acc).mp hx with h | h
      · exact ha x h
      · exact hi x h
    by_cases hg : (c.findGroup cid).isSome = true
    · have hsome : (argsInGroup c cid).isSome = true :=
        C01.unrollArgsInGroup_isSome c wg _ [cid] [] (by intro x hx; simp only [List.mem_singleton] at hx; exact hx ▸ hg)
      cases ha : argsInGroup c cid with
      | none => rw [ha] at hsome; cases hsome
      | some ids =>
        simp only [hg, ↓reduceIte, ha]
        exact ih _ hrest (dedupe ids seen (argsInGroup_args c cid ids ha) hs)
    · simp only [hg, Bool.false_eq_true, ↓reduceIte]
      apply ih _ hrest
      apply dedupe [cid] seen _ hs
      intro x hx
      simp only [List.mem_singleton] at hx
      subst hx
      rcases hc x List.mem_cons_self with h | h
      · exact h
      · exact absurd h hg

/-- every id `gather_conflicts` returns is a key of the potential-conflict table -/
theorem gatherConflicts_keys (c : Cmd) (pot : List (Id × List Id)) (id : Id) (confs : List Id)
    (h : gatherConflicts c pot id = some confs) : ∀ x ∈ confs, ∃ p ∈ pot, p.1 = x := by
  unfold gatherConflicts at h
  simp only at h
  obtain ⟨own, _, rfl⟩ := Option.map_eq_some_iff.mp h
  intro x hx
  obtain ⟨p, hp, hxp⟩ := List.mem_flatMap.mp hx
  split at hxp
  · cases hxp
  · rcases List.mem_append.mp hxp with h1 | h1
    · split at h1
      · simp only [List.mem_singleton] at h1; exact ⟨p, hp, h1.symm⟩
      · cases h1
    · split at h1
      · simp only [List.mem_singleton] at h1; exact ⟨p, hp, h1.symm⟩
      · cases h1

/-- **building the validator's `ArgumentConflict` error never fails**, when the keys of the potential-conflict table
(the explicitly present ids of the matcher) are args or groups of the level -/
theorem conflictError_isSome (c : Cmd) (u : UInfo) (ok : UsageOk c) (m : ArgMap) (pot : List (Id × List Id))
    (hpot : ∀ p ∈ pot, Exists' c p.1) : (conflictError c u m pot).isSome = true := by
  have hreq := requiredGraph_exists c ok.refs
  unfold conflictError
  simp only
  split
  · rw [Option.isSome_map]
    exact usageWithTitle_isSome_any c u ok _ [] hreq (by intro q hq; cases hq)
  · -- the loop over the explicit args
    have key : ∀ (ids : List Id), (∀ id ∈ ids, (c.find id).isSome = true) → (conflictError.go c u m pot ids).isSome = true := by
      intro ids
      induction ids with
      | nil => intro _; rfl
      | cons id rest ih =>
        intro hids
        have hrest := fun x hx => hids x (List.mem_cons_of_mem id hx)
        unfold conflictError.go
        have hgc := C01.gatherConflicts_isSome c pot id
        cases hg : gatherConflicts c pot id with
        | none => rw [hg] at hgc; cases hgc
        | some confs =>
          cases confs with
          | nil => exact ih hrest
          | cons cf cfs =>
            simp only
            have hconfs : ∀ x ∈ cf :: cfs, Exists' c x := by
              intro x hx
              obtain ⟨p, hp, hpx⟩ := gatherConflicts_keys c pot id _ hg x hx
              exact hpx ▸ hpot p hp
            obtain ⟨others, ho, hoa⟩ := conflictOthers_spec c ok.groups (cf :: cfs) [] hconfs (by intro x hx; cases hx)
            have hf := hids id List.mem_cons_self
            cases hfi : c.find id with
            | none => rw [hfi] at hf; cases hf
            | some former =>
              have hu : (conflictUsage c u m (cf :: cfs)).isSome = true := by
                unfold conflictUsage
                apply usageWithTitle_isSome_any c u ok _ _ hreq
                intro q hq
                rcases List.mem_append.mp hq with hq | hq
                · obtain ⟨hq1, _⟩ := List.mem_filter.mp hq
                  obtain ⟨a, ha, hqa⟩ := List.mem_flatMap.mp hq1
                  obtain ⟨k, _, hk⟩ := List.mem_filterMap.mp ha
                  obtain ⟨pr, hpr, rfl⟩ := List.mem_map.mp hqa
                  exact ok.refs.1 a (C03.find_mem hk).1 pr hpr
                · obtain ⟨hq1, _⟩ := List.mem_filter.mp hq
                  have := (List.mem_filter.mp hq1).2
                  cases hfq : c.find q with
                  | none => simp [hfq] at this
                  | some a => exact Or.inl (by simp [hfq])
              cases hcu : conflictUsage c u m (cf :: cfs) with
              | none => rw [hcu] at hu; cases hu
              | some line =>
                rw [ho]
                simp only
                rw [Option.isSome_map]
                apply C01.mapM_isSome'
                intro i hi
                have := hoa i hi
                cases hfi2 : c.find i with
                | none => rw [hfi2] at this; cases this
                | some a => rfl
    apply key
    intro id hid
    exact (List.mem_filter.mp hid).2


/-- the keys of the potential-conflict table are the explicitly present ids of the matcher -/
theorem potential_keys (c : Cmd) (m : ArgMap) (pot : List (Id × List Id)) (h : potential c m = some pot) :
    ∀ p ∈ pot, p.1 ∈ explicitIds m := by
  unfold potential at h
  unfold explicitIds
  generalize (m.filter fun p => p.2.checkExplicit .isPresent) = l at h
  induction l generalizing pot with
  | nil => simp only [List.mapM_nil, Option.pure_def, Option.some.injEq] at h; subst h; intro p hp; cases hp
  | cons e es ih =>
    simp only [List.mapM_cons, Option.bind_eq_bind, Option.pure_def] at h
    cases hg : gatherDirectConflicts c e.1 with
    | none => rw [hg] at h; simp at h
    | some conf =>
      rw [hg] at h
      simp only [Option.map_some, Option.bind_some] at h
      cases hr : es.mapM (fun p => (gatherDirectConflicts c p.1).map fun conf => (p.1, conf)) with
      | none => rw [hr] at h; simp at h
      | some rest =>
        rw [hr] at h
        simp only [Option.bind_some, Option.some.injEq] at h
        subst h
        intro p hp
        rcases List.mem_cons.mp hp with rfl | hp
        · simp
        · have := ih rest hr p hp
          simp only [List.map_cons, List.mem_cons]
          exact Or.inr this

/-- the conflict error is defined for the validator's own table, when the explicitly present ids of the matcher are
args or groups of the level (the parser's store invariant, C02) -/
theorem conflictError_isSome_matcher (c : Cmd) (u : UInfo) (ok : UsageOk c) (m : ArgMap) (pot : List (Id × List Id))
    (hp : potential c m = some pot) (hm : ∀ id ∈ explicitIds m, Exists' c id) : (conflictError c u m pot).isSome = true :=
  conflictError_isSome c u ok m pot fun p hpp => hm p.1 (potential_keys c m pot hp p hpp)


end Clap.C10E
