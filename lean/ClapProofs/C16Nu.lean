/-
C16 — the nushell generator: every command of the tree, at every depth, has its `export extern` block in the script,
and a block spells every long and short of every option and names every positional of its level.
-/
import ClapProofs.C16
import ClapModel.NuGen
namespace Clap.C16
open Clap Shell NuGen

inductive NChain : NNode → List NNode → Prop
  | nil (n : NNode) : NChain n []
  | cons (n c : NNode) (rest : List NNode) : c ∈ n.subs → NChain c rest → NChain n (c :: rest)

theorem nu_genSubs_mem : ∀ (subs : List NNode) (c : NNode), c ∈ subs → genSub c <:+: genSubs subs := by
  intro subs
  induction subs with
  | nil => intro c h; cases h
  | cons x xs ih =>
    intro c h
    unfold genSubs
    rcases List.mem_cons.1 h with rfl | h'
    · exact infix_append_left _ (List.infix_refl _)
    · exact infix_append_right _ (ih c h')

theorem nu_genSub_eq (n : NNode) : genSub n = block n true ++ genSubs n.subs := by
  cases n with
  | mk b a args subs => unfold genSub; rfl

/-- every command below `n` has its block inside `genSubs n.subs` -/
theorem nu_block_below (n : NNode) (chain : List NNode) (hne : chain ≠ []) (hch : NChain n chain) :
    block (chain.getLast hne) true <:+: genSubs n.subs := by
  induction chain generalizing n with
  | nil => exact absurd rfl hne
  | cons c rest ih =>
    cases hch with
    | cons _ _ _ hmem hrest =>
      refine List.IsInfix.trans ?_ (nu_genSubs_mem n.subs c hmem)
      rw [nu_genSub_eq]
      cases rest with
      | nil => simp only [List.getLast_singleton]; exact infix_append_left _ (List.infix_refl _)
      | cons c2 rest2 =>
        rw [List.getLast_cons (by simp)]
        exact infix_append_right _ (ih c (by simp) hrest)

/-- **every command of the tree has its `export extern` block in the nushell script**, whatever its depth -/
theorem nu_block_for_chain (root : NNode) (chain : List NNode) (hne : chain ≠ []) (hch : NChain root chain) :
    block (chain.getLast hne) true <:+: script root := by
  unfold script
  exact infix_append_left _ (infix_append_right _ (nu_block_below root chain hne hch))

theorem nu_root_block (root : NNode) : block root false <:+: script root := by
  unfold script
  exact infix_append_left _ (infix_append_left _ (infix_append_right _ (List.infix_refl _)))

theorem nu_valueAndHelp_prefix (a : NArg) (name line : Str) : line <:+: valueAndHelp a name line := by
  have h1 : line <:+: typed a name line := by
    unfold typed
    split
    · exact infix_append_left _ (List.infix_refl _)
    · exact List.infix_refl _
  unfold valueAndHelp
  simp only
  refine infix_append_left _ ?_
  cases a.help with
  | none => exact h1
  | some h => exact infix_append_left _ h1

/-- a block spells every long of every option of its level … -/
theorem nu_block_has_long (n : NNode) (isSub : Bool) (a : NArg) (ha : a ∈ n.args) (hp : a.positional = false)
    (l : Str) (hl : l ∈ a.longs) : (s "--" ++ l) <:+: block n isSub := by
  have harg : (s "--" ++ l) <:+: argLines a n.binName := by
    unfold argLines
    simp only [hp, Bool.false_eq_true, ↓reduceIte]
    have key : ∀ (ls : List Str), l ∈ ls → (s "--" ++ l) <:+: ls.flatMap fun l' => valueAndHelp a n.binName (s "    --" ++ l') := by
      intro ls h
      refine List.IsInfix.trans ?_ (infix_flatMap ls _ l h)
      exact List.IsInfix.trans ⟨s "    ", [], by simp [s]⟩ (nu_valueAndHelp_prefix a n.binName _)
    cases hsh : a.shorts with
    | nil =>
      cases hlo : a.longs with
      | nil => rw [hlo] at hl; cases hl
      | cons l0 ls => simp only; exact key _ (hlo ▸ hl)
    | cons sh shs =>
      cases hlo : a.longs with
      | nil => rw [hlo] at hl; cases hl
      | cons l0 ls =>
        simp only
        rw [hlo] at hl
        rcases List.mem_cons.1 hl with rfl | h'
        · refine infix_append_left _ (infix_append_left _ ?_)
          refine List.IsInfix.trans ?_ (nu_valueAndHelp_prefix a n.binName _)
          exact ⟨s "    ", s "(-" ++ sh ++ s ")", by simp [s, List.append_assoc]⟩
        · exact infix_append_left _ (infix_append_right _ (key ls h'))
  unfold block
  exact infix_append_left _ (infix_append_right _ (List.IsInfix.trans harg (infix_flatMap n.args (fun a => argLines a n.binName) a ha)))

/-- … and names every positional -/
theorem nu_block_has_positional (n : NNode) (isSub : Bool) (a : NArg) (ha : a ∈ n.args) (hp : a.positional = true) :
    a.id <:+: block n isSub := by
  have harg : a.id <:+: argLines a n.binName := by
    unfold argLines
    simp only [hp, ↓reduceIte]
    refine List.IsInfix.trans ?_ (nu_valueAndHelp_prefix a n.binName _)
    split
    · exact ⟨s "    ...", [], by simp⟩
    · exact ⟨s "    ", (if a.required then [] else s "?"), by simp [List.append_assoc]⟩
  unfold block
  exact infix_append_left _ (infix_append_right _ (List.IsInfix.trans harg (infix_flatMap n.args (fun a => argLines a n.binName) a ha)))

end Clap.C16
