/-
C03 — A successful parse satisfies every declared relation between arguments.
Soundness of the validator model: whatever `validate` accepts obeys the
relations, for every command and every matcher state (no bound on sizes).
-/
import ClapModel
namespace Clap.C03
open Clap Validator

/-- explicitly present (source is not a default) -/
def Explicit (p : P) (id : Id) : Prop := id ∈ explicitIds p.args

theorem mem_explicitIds {m : ArgMap} {id : Id} (h : id ∈ explicitIds m) :
    ∃ ma, (id, ma) ∈ m ∧ ma.checkExplicit .isPresent = true := by
  unfold explicitIds at h
  simp only [List.mem_map, List.mem_filter] at h
  obtain ⟨⟨i, ma⟩, ⟨hm, he⟩, rfl⟩ := h
  exact ⟨ma, hm, he⟩

/-! #### 1. conflicts -/

/-- every explicitly present id is in `potential`, with its direct conflicts -/
theorem potential_mem {c : Cmd} {m : ArgMap} {pot : List (Id × List Id)} (hp : potential c m = some pot)
    {id : Id} (h : id ∈ explicitIds m) : ∃ conf, (id, conf) ∈ pot ∧ gatherDirectConflicts c id = some conf := by
  unfold potential at hp
  obtain ⟨ma, hm, he⟩ := mem_explicitIds h
  have hin : (id, ma) ∈ m.filter fun p => p.2.checkExplicit .isPresent := by simp [List.mem_filter, hm, he]
  -- `mapM` over the filtered list succeeded, so every element was mapped
  have key : ∀ (l : List (Id × MatchedArg)) (out : List (Id × List Id)),
      l.mapM (fun p => (gatherDirectConflicts c p.1).map fun conf => (p.1, conf)) = some out →
      ∀ x ∈ l, ∃ conf, (x.1, conf) ∈ out ∧ gatherDirectConflicts c x.1 = some conf := by
    intro l
    induction l with
    | nil => intro out _ x hx; simp at hx
    | cons y ys ih =>
      intro out hout x hx
      simp only [List.mapM_cons, Option.pure_def, Option.bind_eq_bind] at hout
      cases hy : gatherDirectConflicts c y.1 with
      | none => simp [hy] at hout
      | some cy =>
        simp only [hy, Option.map_some, Option.bind_some] at hout
        cases hys : ys.mapM (fun p => (gatherDirectConflicts c p.1).map fun conf => (p.1, conf)) with
        | none => simp [hys] at hout
        | some outs =>
          simp only [hys, Option.bind_some, Option.some.injEq] at hout
          subst hout
          rcases List.mem_cons.1 hx with rfl | hx'
          · exact ⟨cy, by simp, hy⟩
          · obtain ⟨conf, h1, h2⟩ := ih outs hys x hx'
            exact ⟨conf, by simp [h1], h2⟩
  exact key _ pot hp (id, ma) hin

/-- every entry of `potential` carries the direct conflicts of its id -/
theorem potential_sound {c : Cmd} {m : ArgMap} {pot : List (Id × List Id)} (hp : potential c m = some pot) :
    ∀ q ∈ pot, gatherDirectConflicts c q.1 = some q.2 ∧ q.1 ∈ explicitIds m := by
  unfold potential at hp
  have key : ∀ (l : List (Id × MatchedArg)) (out : List (Id × List Id)),
      l.mapM (fun p => (gatherDirectConflicts c p.1).map fun conf => (p.1, conf)) = some out →
      ∀ q ∈ out, gatherDirectConflicts c q.1 = some q.2 ∧ ∃ ma, (q.1, ma) ∈ l := by
    intro l
    induction l with
    | nil => intro out hout q hq; simp at hout; subst hout; simp at hq
    | cons y ys ih =>
      intro out hout q hq
      simp only [List.mapM_cons, Option.pure_def, Option.bind_eq_bind] at hout
      cases hy : gatherDirectConflicts c y.1 with
      | none => simp [hy] at hout
      | some cy =>
        simp only [hy, Option.map_some, Option.bind_some] at hout
        cases hys : ys.mapM (fun p => (gatherDirectConflicts c p.1).map fun conf => (p.1, conf)) with
        | none => simp [hys] at hout
        | some outs =>
          simp only [hys, Option.bind_some, Option.some.injEq] at hout
          subst hout
          rcases List.mem_cons.1 hq with rfl | hq'
          · exact ⟨hy, y.2, by simp⟩
          · obtain ⟨h1, ma, h2⟩ := ih outs hys q hq'
            exact ⟨h1, ma, by simp [h2]⟩
  intro q hq
  obtain ⟨h1, ma, h2⟩ := key _ pot hp q hq
  refine ⟨h1, ?_⟩
  unfold explicitIds
  simp only [List.mem_map]
  exact ⟨(q.1, ma), h2, rfl⟩

/-- what an empty result of `gather_conflicts` means -/
theorem gatherConflicts_nil {c : Cmd} {pot : List (Id × List Id)} {id : Id} {e : Id × List Id}
    (ho : pot.find? (fun p => p.1 == id) = some e) (h : gatherConflicts c pot id = some []) :
    ∀ q ∈ pot, q.1 ≠ id → q.1 ∉ e.2 ∧ id ∉ q.2 := by
  unfold gatherConflicts at h
  simp only [ho, Option.map_some, Option.some.injEq] at h
  intro q hq hne
  have := List.flatMap_eq_nil_iff.1 h q hq
  have hqi : (q.1 == id) = false := by simpa using hne
  simp only [hqi, Bool.false_eq_true, ↓reduceIte, List.append_eq_nil_iff] at this
  obtain ⟨h1, h2⟩ := this
  constructor
  · intro hin
    simp at h1
    exact h1 hin
  · intro hin
    simp at h2
    exact h2 hin

/-- the loop of `validate_conflicts` accepted every id -/
theorem go_ok {c : Cmd} {pot : List (Id × List Id)} : ∀ (ids : List Id),
    validateConflicts.go c pot ids = .ok () → ∀ id ∈ ids, gatherConflicts c pot id = some [] := by
  intro ids
  induction ids with
  | nil => intro _ id h; simp at h
  | cons x xs ih =>
    intro h id hid
    unfold validateConflicts.go at h
    cases hg : gatherConflicts c pot x with
    | none => simp [hg] at h
    | some l =>
      cases l with
      | nil =>
        simp only [hg] at h
        rcases List.mem_cons.1 hid with rfl | hid'
        · exact hg
        · exact ih h id hid'
      | cons y ys => simp [hg] at h

/-- **no two explicitly present args (or an arg and a present group) that are
declared to conflict** - by blacklist, by a group's `conflicts`, by membership
of a non-multiple group, or by override - survive validation, in either
direction of the declaration -/
theorem no_conflict (c : Cmd) (p : P) (hv : validate c p = .ok ()) (a b : Id)
    (ha : Explicit p a) (hb : Explicit p b) (harg : (c.find a).isSome = true) (hne : b ≠ a)
    (ca cb : List Id) (hca : gatherDirectConflicts c a = some ca) (hcb : gatherDirectConflicts c b = some cb) :
    b ∉ ca ∧ a ∉ cb := by
  unfold validate at hv
  cases hp : potential c p.args with
  | none => simp [hp] at hv
  | some pot =>
    simp only [hp] at hv
    split at hv
    · simp at hv
    · split at hv
      · simp at hv
      · cases hvc : validateConflicts c p.args pot with
        | error e => simp [hvc] at hv
        | ok u =>
          unfold validateConflicts at hvc
          split at hvc
          · simp at hvc
          · have hgo := go_ok _ hvc a (by
              simp only [List.mem_filter]
              exact ⟨ha, harg⟩)
            obtain ⟨confa, hina, _⟩ := potential_mem hp ha
            obtain ⟨confb, hinb, hgb⟩ := potential_mem hp hb
            -- the entry `find?` returns for `a` carries a's direct conflicts
            have hfind : ∃ e, pot.find? (fun q => q.1 == a) = some e := by
              cases hf : pot.find? (fun q => q.1 == a) with
              | some e => exact ⟨e, rfl⟩
              | none =>
                have := List.find?_eq_none.1 hf (a, confa) hina
                simp at this
            obtain ⟨e, he⟩ := hfind
            have hemem := List.mem_of_find?_eq_some he
            have he1 : e.1 = a := by have := List.find?_some he; simpa using this
            have hsound := (potential_sound hp e hemem).1
            rw [he1, hca] at hsound
            have hnil := gatherConflicts_nil he hgo (b, confb) hinb hne
            simp only at hnil
            rw [hgb] at hcb
            have hcbe : confb = cb := by simpa using hcb
            have hcae : ca = e.2 := by simpa using hsound
            rw [hcae, ← hcbe]
            exact hnil

/-! #### 2. exclusive -/

/-- an explicitly present exclusive arg is the only explicitly present arg -/
theorem exclusive_alone (c : Cmd) (p : P) (hv : validate c p = .ok ()) (a : Id) (arg : Arg)
    (ha : Explicit p a) (hfa : c.find a = some arg) (hex : arg.exclusive = true) :
    ((explicitIds p.args).filter fun id => (c.find id).isSome).length ≤ 1 := by
  unfold validate at hv
  cases hp : potential c p.args with
  | none => simp [hp] at hv
  | some pot =>
    simp only [hp] at hv
    split at hv
    · simp at hv
    · split at hv
      · simp at hv
      · cases hvc : validateConflicts c p.args pot with
        | error e => simp [hvc] at hv
        | ok u =>
          unfold validateConflicts at hvc
          cases hve : validateExclusive c p.args with
          | error e => simp [hve] at hvc
          | ok u =>
            unfold validateExclusive at hve
            simp only at hve
            split at hve
            · assumption
            · split at hve
              · simp at hve
              · next hnone =>
                exfalso
                apply hnone
                simp only [List.any_eq_true]
                exact ⟨a, ha, by simp [hfa, hex]⟩

/-! #### 3. non-multiple groups -/

theorem groupConflictFold_none (c : Cmd) (aid : Id) : ∀ (gids : List Id), gids.foldl (groupConflictStep c aid) none = none := by
  intro gids
  induction gids with
  | nil => rfl
  | cons y ys ih => simp only [List.foldl_cons, groupConflictStep]; exact ih

/-- the fold only ever appends; when it reaches a non-multiple group it appends the arg's siblings -/
theorem groupConflictFold (c : Cmd) (aid : Id) (g : Group) (b : Id) (hfg : c.findGroup g.id = some g)
    (hmb : b ∈ g.args) (hne : b ≠ aid) (hmult : g.multiple = false) :
    ∀ (gids : List Id) (l res : List Id), gids.foldl (groupConflictStep c aid) (some l) = some res →
      (∀ x ∈ l, x ∈ res) ∧ (g.id ∈ gids → b ∈ res) := by
  intro gids
  induction gids with
  | nil => intro l res h; simp at h; subst h; exact ⟨fun x hx => hx, by simp⟩
  | cons y ys ih =>
    intro l res h
    simp only [List.foldl_cons] at h
    cases hfy : c.findGroup y with
    | none =>
      simp only [groupConflictStep, hfy] at h
      rw [groupConflictFold_none] at h; simp at h
    | some gy =>
      simp only [groupConflictStep, hfy] at h
      obtain ⟨i1, i2⟩ := ih _ res h
      refine ⟨fun x hx => i1 x (by simp [hx]), fun hmem => ?_⟩
      rcases List.mem_cons.1 hmem with hy | hys
      · have : gy = g := by rw [← hy] at hfy; rw [hfg] at hfy; simpa using hfy.symm
        subst this
        apply i1 b
        simp [hmult, hmb, hne]
      · exact i2 hys

/-- two distinct members of a non-multiple group are direct conflicts of each other -/
theorem group_members_conflict (c : Cmd) (a : Arg) (g : Group) (b : Id) (hfa : c.find a.id = some a)
    (hg : g ∈ c.groups) (hfg : c.findGroup g.id = some g) (hma : a.id ∈ g.args) (hmb : b ∈ g.args)
    (hne : b ≠ a.id) (hmult : g.multiple = false) (ca : List Id) (hca : gatherDirectConflicts c a.id = some ca) : b ∈ ca := by
  unfold gatherDirectConflicts at hca
  simp only [hfa, argDirectConflicts] at hca
  have hin : g.id ∈ c.groupsForArg a.id := by
    unfold Cmd.groupsForArg
    simp only [List.mem_map, List.mem_filter]
    exact ⟨g, ⟨hg, by simpa using hma⟩, rfl⟩
  cases hfold : (c.groupsForArg a.id).foldl (groupConflictStep c a.id) (some a.blacklist) with
  | none => simp [hfold] at hca
  | some res =>
    simp only [hfold, Option.map_some, Option.some.injEq] at hca
    subst hca
    have := (groupConflictFold c a.id g b hfg hmb hne hmult _ _ res hfold).2 hin
    simp [this]

/-- **a non-multiple group has at most one explicitly present member** -/
theorem group_single (c : Cmd) (p : P) (hv : validate c p = .ok ()) (a b : Arg) (g : Group)
    (hfa : c.find a.id = some a)
    (hg : g ∈ c.groups) (hfg : c.findGroup g.id = some g) (hma : a.id ∈ g.args) (hmb : b.id ∈ g.args)
    (hmult : g.multiple = false) (ha : Explicit p a.id) (hb : Explicit p b.id)
    (ca cb : List Id) (hca : gatherDirectConflicts c a.id = some ca) (hcb : gatherDirectConflicts c b.id = some cb) :
    a.id = b.id := by
  by_cases hne : b.id = a.id
  · exact hne.symm
  · exfalso
    have h1 := group_members_conflict c a g b.id hfa hg hfg hma hmb hne hmult ca hca
    have h2 := (no_conflict c p hv a.id b.id ha hb (by simp [hfa]) hne ca cb hca hcb).1
    exact h2 h1

/-! #### 4. requirements -/

theorem requiredLoop_ok {c : Cmd} {m : ArgMap} {pot : List (Id × List Id)} {ex : Bool} : ∀ (l : List Id),
    requiredLoop c m pot ex l = .ok false → ∀ r ∈ l, m.checkExplicit r .isPresent = false →
      (∀ a, c.find r = some a → ex = true ∨ isMissingRequiredOk c pot a = some true) ∧
      (c.find r = none → ∀ g, c.findGroup r = some g → ∃ members, argsInGroup c g.id = some members ∧
          (members.any fun a => m.checkExplicit a .isPresent) = true) := by
  intro l
  induction l with
  | nil => intro _ r hr; simp at hr
  | cons x xs ih =>
    intro h r hr hne
    unfold requiredLoop at h
    by_cases hx : m.checkExplicit x .isPresent = true
    · simp only [hx, ↓reduceIte] at h
      rcases List.mem_cons.1 hr with rfl | hr'
      · rw [hx] at hne; simp at hne
      · exact ih h r hr' hne
    · have hx' : m.checkExplicit x .isPresent = false := by simpa using hx
      simp only [hx', Bool.false_eq_true, ↓reduceIte] at h
      cases hf : c.find x with
      | some a =>
        simp only [hf] at h
        cases hok : isMissingRequiredOk c pot a with
        | none => simp [hok] at h
        | some ok =>
          simp only [hok] at h
          split at h
          · simp at h
          · next hcond =>
            rcases List.mem_cons.1 hr with rfl | hr'
            · refine ⟨fun a' ha' => ?_, fun hnone => by rw [hf] at hnone; simp at hnone⟩
              rw [hf] at ha'
              have : a = a' := by simpa using ha'
              subst this
              cases ex <;> cases ok <;> simp_all
            · exact ih h r hr' hne
      | none =>
        simp only [hf] at h
        cases hg : c.findGroup x with
        | none =>
          simp only [hg] at h
          rcases List.mem_cons.1 hr with rfl | hr'
          · exact ⟨fun a ha => by rw [hf] at ha; simp at ha, fun _ g hg' => by rw [hg] at hg'; simp at hg'⟩
          · exact ih h r hr' hne
        | some g =>
          simp only [hg] at h
          cases hm : argsInGroup c g.id with
          | none => simp [hm] at h
          | some members =>
            simp only [hm] at h
            split at h
            · simp at h
            · next hany =>
              rcases List.mem_cons.1 hr with rfl | hr'
              · refine ⟨fun a ha => by rw [hf] at ha; simp at ha, fun _ g' hg' => ?_⟩
                rw [hg] at hg'
                have : g = g' := by simpa using hg'
                subst this
                exact ⟨members, hm, by simpa using hany⟩
              · exact ih h r hr' hne

theorem mem_foldl_dedup (extra : List Id) : ∀ (init : List Id) (x : Id), x ∈ init →
    x ∈ extra.foldl (fun acc i => if acc.contains i then acc else acc ++ [i]) init := by
  induction extra with
  | nil => intro init x h; exact h
  | cons e es ih =>
    intro init x h
    simp only [List.foldl_cons]
    apply ih
    split
    · exact h
    · simp [h]

/-- a statically required arg is in the list `validate_required` walks -/
theorem required_in_graph (c : Cmd) (a : Arg) (ha : a ∈ c.args) (hr : a.required = true) (m : ArgMap) :
    a.id ∈ requiredIds c m := by
  unfold requiredIds
  apply mem_foldl_dedup
  unfold requiredGraph
  -- the static part: dedup of the required args' ids, then groups only append
  have h1 : a.id ∈ ((c.args.filter (·.required)).map (·.id)).foldl (fun acc i => if acc.contains i then acc else acc ++ [i]) [] := by
    have hin : a.id ∈ (c.args.filter (·.required)).map (·.id) := by
      simp only [List.mem_map, List.mem_filter]
      exact ⟨a, ⟨ha, hr⟩, rfl⟩
    have key : ∀ (l init : List Id) (x : Id), (x ∈ init ∨ x ∈ l) →
        x ∈ l.foldl (fun acc i => if acc.contains i then acc else acc ++ [i]) init := by
      intro l
      induction l with
      | nil => intro init x h; simpa using h
      | cons e es ih =>
        intro init x h
        simp only [List.foldl_cons]
        apply ih
        rcases h with h | h
        · left; split
          · exact h
          · simp [h]
        · rcases List.mem_cons.1 h with rfl | h'
          · left; split
            · next hc => simpa using hc
            · simp
          · right; exact h'
    exact key _ [] a.id (Or.inr hin)
  have key2 : ∀ (gs : List Group) (init : List Id) (x : Id), x ∈ init →
      x ∈ gs.foldl (fun acc g => if g.required then (if acc.contains g.id then acc else acc ++ [g.id]) ++ g.requires else acc) init := by
    intro gs
    induction gs with
    | nil => intro init x h; exact h
    | cons g gs ih =>
      intro init x h
      simp only [List.foldl_cons]
      apply ih
      split
      · split <;> simp [h]
      · exact h
  exact key2 _ _ _ h1

/-- **a statically required arg is explicitly present** after a successful
validation, unless a documented exemption applies: an exclusive arg is present,
a present arg/group conflicts with it or with one of its groups
(`is_missing_required_ok`), or a subcommand is present and negates requirements -/
theorem required_present (c : Cmd) (p : P) (hv : validate c p = .ok ()) (a : Arg) (ha : a ∈ c.args)
    (hfa : c.find a.id = some a) (hr : a.required = true) :
    p.args.checkExplicit a.id .isPresent = true ∨
    (c.settings.subcommandNegatesReqs = true ∧ p.sub ≠ []) ∨
    isExclusivePresent c p.args = true ∨
    ∃ pot, potential c p.args = some pot ∧ isMissingRequiredOk c pot a = some true := by
  unfold validate at hv
  cases hp : potential c p.args with
  | none => simp [hp] at hv
  | some pot =>
    simp only [hp] at hv
    split at hv
    · simp at hv
    · split at hv
      · simp at hv
      · cases hvc : validateConflicts c p.args pot with
        | error e => simp [hvc] at hv
        | ok u =>
          simp only [hvc] at hv
          split at hv
          · next hneg =>
            unfold validateRequired at hv
            cases hl : requiredLoop c p.args pot (isExclusivePresent c p.args) (requiredIds c p.args) with
            | error e => simp [hl] at hv
            | ok missing1 =>
              simp only [hl] at hv
              cases missing1 with
              | true => simp at hv
              | false =>
                by_cases hex : p.args.checkExplicit a.id .isPresent = true
                · exact Or.inl hex
                · have hex' : p.args.checkExplicit a.id .isPresent = false := by simpa using hex
                  have := (requiredLoop_ok _ hl a.id (required_in_graph c a ha hr p.args) hex').1 a hfa
                  rcases this with h | h
                  · exact Or.inr (Or.inr (Or.inl h))
                  · exact Or.inr (Or.inr (Or.inr ⟨pot, rfl, h⟩))
          · next hneg =>
            right; left
            simp only [Bool.not_eq_true', Bool.not_eq_false', Bool.and_eq_true] at hneg
            have hneg' : c.settings.subcommandNegatesReqs = true ∧ (!p.sub.isEmpty) = true := by simpa using hneg
            exact ⟨hneg'.1, by intro hs; simp [hs] at hneg'⟩

/-- conditionally required args (`required_if_eq`, `required_if_eq_all`,
`required_unless_present*`) likewise: if the condition holds on the explicit
values and no exclusive arg is present, the arg is explicitly present -/
theorem conditionally_required_present (c : Cmd) (p : P) (hv : validate c p = .ok ()) (a : Arg) (ha : a ∈ c.args)
    (hneg : (c.settings.subcommandNegatesReqs && !p.sub.isEmpty) = false)
    (hex : isExclusivePresent c p.args = false) : conditionallyMissing p.args a = false := by
  unfold validate at hv
  cases hp : potential c p.args with
  | none => simp [hp] at hv
  | some pot =>
    simp only [hp] at hv
    split at hv
    · simp at hv
    · split at hv
      · simp at hv
      · cases hvc : validateConflicts c p.args pot with
        | error e => simp [hvc] at hv
        | ok u =>
          simp only [hvc, hneg, Bool.not_false, ↓reduceIte] at hv
          unfold validateRequired at hv
          rw [hex] at hv
          cases hl : requiredLoop c p.args pot false (requiredIds c p.args) with
          | error e => simp [hl] at hv
          | ok missing1 =>
            simp only [hl, Bool.not_false, Bool.and_true] at hv
            cases hcm : conditionallyMissing p.args a with
            | false => rfl
            | true =>
              have : (c.args.any fun a => conditionallyMissing p.args a) = true := by
                simp only [List.any_eq_true]; exact ⟨a, ha, hcm⟩
              simp [this] at hv

/-- **defaults never count as presence**: an entry whose source is `DefaultValue` is not explicit -/
theorem default_not_explicit (ma : MatchedArg) (hs : ma.source = some .default) (pr : Pred) : ma.checkExplicit pr = false := by
  unfold MatchedArg.checkExplicit
  simp [hs, Source.isExplicit]

end Clap.C03
