/-
C06 — Command line beats environment beats default, and sources are reported honestly.
-/
import ClapModel
import ClapProofs.C07
namespace Clap.C06
open Clap Parser C07

/-! #### the reported source -/

/-- `set_source` keeps the maximum of `Default < Env < CommandLine` -/
theorem setSource_max (m : MatchedArg) (s : Source) :
    (m.setSource s).source = some (match m.source with | some e => e.max s | none => s) := rfl

theorem max_rank_ge_left (a b : Source) : a.rank ≤ (a.max b).rank := by
  unfold Source.max; split <;> omega
theorem max_rank_ge_right (a b : Source) : b.rank ≤ (a.max b).rank := by
  unfold Source.max; split <;> omega

/-- once an entry has been touched by the command line it stays `CommandLine` -/
theorem setSource_cmdline_sticky (m : MatchedArg) (s : Source) (h : m.source = some .cmdline) :
    (m.setSource s).source = some .cmdline := by
  simp only [MatchedArg.setSource, h]
  cases s <;> rfl

/-- a default can never raise the source of an entry that already has one -/
theorem setSource_default_noop (m : MatchedArg) (e : Source) (h : m.source = some e) :
    (m.setSource .default).source = some e := by
  simp only [MatchedArg.setSource, h]
  cases e <;> rfl

/-! #### phase order: env only for absent args, defaults only for still-absent args -/

/-- `add_env` skips an arg that is already in the matcher (it was given on the command line) -/
theorem addEnv_skips_present (c : Cmd) (a : Arg) (rest : List Arg) (p : P) (h : p.args.contains a.id = true) :
    addEnv c (a :: rest) p = addEnv c rest p := by
  simp [addEnv, h]

/-- `add_env` does nothing for an arg without an env value -/
theorem addEnv_skips_unset (c : Cmd) (a : Arg) (rest : List Arg) (p : P) (h : a.env = none ∨ a.env = some none) :
    addEnv c (a :: rest) p = addEnv c rest p := by
  rw [addEnv]
  split
  · rfl
  · rcases h with h | h <;> simp [h]

/-- `add_default_value` leaves an arg that is in the matcher alone - whether it got
there from the command line or from the environment -/
theorem addDefault_skips_present (c : Cmd) (a : Arg) (p : P) (h : p.args.contains a.id = true) :
    addDefaultValue c a p = (p, .ok ()) := by
  unfold addDefaultValue
  simp [h]

/-! #### the missing-value default applies precisely to an occurrence without values -/

/-- the values stored for an occurrence: the missing-value default iff the occurrence is empty -/
def occurrenceValues (a : Arg) (rawVals : List Bytes) : List Bytes :=
  if rawVals.isEmpty && !a.defaultMissing.isEmpty then a.defaultMissing else rawVals

theorem occurrenceValues_nonempty (a : Arg) (vals : List Bytes) (h : vals ≠ []) : occurrenceValues a vals = vals := by
  unfold occurrenceValues
  cases vals with
  | nil => exact absurd rfl h
  | cons v vs => simp

theorem occurrenceValues_empty (a : Arg) (h : a.defaultMissing ≠ []) : occurrenceValues a [] = a.defaultMissing := by
  unfold occurrenceValues
  cases hd : a.defaultMissing with
  | nil => exact absurd hd h
  | cons v vs => simp

/-- `react` stores `occurrenceValues` (delimiter-split): the only place where
`default_missing_vals` enters is the empty occurrence -/
theorem reactCore_uses_occurrenceValues (c : Cmd) (ident : Option Ident) (s : Source) (a : Arg) (vals : List Bytes)
    (t : Option Nat) (p : P) (hset : a.getAction = .append)
    (hv : (if s == .cmdline then verifyNumArgs c a vals.length else .ok ()) = .ok ()) :
    reactCore c ident s a vals t p =
      reactFinish c a s (bumpIdx s ident p)
        (splitDelim c a (occurrenceValues a vals) (if vals.isEmpty && !a.defaultMissing.isEmpty then none else t)) := by
  unfold reactCore occurrenceValues
  simp only [hv, hset]

/-! #### the source of a fresh entry is the origin that created it -/

/-- an arg that is not in the matcher and gets its value from origin `s` ends up
with `value_source = s` and exactly those values -/
theorem fresh_entry_source (c : Cmd) (a : Arg) (s : Source) (p : P) (vals : List Bytes)
    (hng : ∀ g ∈ c.groupsForArg a.id, (g == a.id) = false)
    (habs : cnt (if s == .cmdline then removeOverrides c a p.args else p.args) a.id = 0)
    (hpv : ∀ v ∈ vals, parseValue a v = .ok ()) :
    (reactFinish c a s p vals).2 = .ok .valuesDone ∧
    ∃ ma, (reactFinish c a s p vals).1.args.get a.id = some ma ∧ ma.rawVals = [vals] ∧ ma.source = some s := by
  have hnc : (if s == .cmdline then removeOverrides c a p.args else p.args).contains a.id = false := by
    cases hcc : (if s == .cmdline then removeOverrides c a p.args else p.args).contains a.id with
    | false => rfl
    | true => have := (contains_iff_cnt _ _).1 hcc; omega
  have hstart_get : (matcherStart (if s == .cmdline then removeOverrides c a p.args else p.args) a.id { ignoreCase := a.ignoreCase } s).get a.id
      = some (freshEntry a s) := by
    unfold matcherStart freshEntry
    simp only [hnc, Bool.false_eq_true, ↓reduceIte, ArgMap.get_update_self, ArgMap.get_append_new _ _ _ hnc, Option.map_some]
  -- state after `start_custom_arg`
  have hsc : ∃ p1, startCustomArg c a s p = (p1, .ok ()) ∧ p1.args.get a.id = some (freshEntry a s) := by
    unfold startCustomArg
    simp only
    split
    · exact ⟨_, rfl, hstart_get⟩
    · obtain ⟨g1, _⟩ := groupFold_other a s a.id (c.groupsForArg a.id)
        (matcherStart (if s == .cmdline then removeOverrides c a p.args else p.args) a.id { ignoreCase := a.ignoreCase } s, true) hng
      have hok := groupFold_ok a s (c.groupsForArg a.id)
        (matcherStart (if s == .cmdline then removeOverrides c a p.args else p.args) a.id { ignoreCase := a.ignoreCase } s)
      simp only [hok, ↓reduceIte]
      exact ⟨_, rfl, by rw [g1, hstart_get]⟩
  obtain ⟨p1, h1, h2⟩ := hsc
  unfold reactFinish
  rw [h1]
  simp only
  obtain ⟨q1, ma', q2, q3, q4, _⟩ := pushArgValues_all a vals p1 (freshEntry a s) [] [] h2
    (by simp [freshEntry, MatchedArg.newValGroup, MatchedArg.setSource]) hpv
  cases hp : pushArgValues a vals p1 with
  | mk p2 r2 =>
    rw [hp] at q1 q2
    simp only at q1 q2
    subst q1
    refine ⟨rfl, ma', q2, by simpa using q3, ?_⟩
    rw [q4]; simp [freshEntry, MatchedArg.newValGroup, MatchedArg.setSource]

end Clap.C06
