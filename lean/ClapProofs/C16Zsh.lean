/-
C16 — the zsh generator: the root's `_arguments` spec, the root's `_<bin>_commands` function and one
`_<bin>_commands` function for every command of the tree are in the script; such a function names every subcommand
and visible alias of its command.
-/
import ClapProofs.C16
import ClapModel.ZshGen
namespace Clap.C16
open Clap Shell ZshGen

theorem zsh_mem_insertSorted (x y : Str) : ∀ (l : List Str), y ∈ insertSorted x l ↔ y = x ∨ y ∈ l
  | [] => by simp [insertSorted]
  | z :: zs => by
    unfold insertSorted
    split
    · simp
    · rw [List.mem_cons, zsh_mem_insertSorted x y zs, List.mem_cons]
      constructor
      · rintro (h | h | h)
        · exact Or.inr (Or.inl h)
        · exact Or.inl h
        · exact Or.inr (Or.inr h)
      · rintro (h | h | h)
        · exact Or.inr (Or.inl h)
        · exact Or.inl h
        · exact Or.inr (Or.inr h)

theorem zsh_mem_sorted (l : List Str) (y : Str) : ∀ (acc : List Str), y ∈ l.foldl (fun acc x => insertSorted x acc) acc ↔ y ∈ acc ∨ y ∈ l := by
  induction l with
  | nil => intro acc; simp
  | cons x xs ih =>
    intro acc
    rw [List.foldl_cons, ih, zsh_mem_insertSorted, List.mem_cons]
    constructor
    · rintro ((h | h) | h)
      · exact Or.inr (Or.inl h)
      · exact Or.inl h
      · exact Or.inr (Or.inr h)
    · rintro (h | h | h)
      · exact Or.inl (Or.inr h)
      · exact Or.inl (Or.inl h)
      · exact Or.inr h

def dedupStep (x : Str) (acc : List Str) : List Str := match acc with | z :: _ => if x == z then acc else x :: acc | [] => [x]

theorem zsh_mem_dedup (y : Str) : ∀ (l : List Str), y ∈ l → y ∈ l.foldr dedupStep [] := by
  intro l
  induction l with
  | nil => intro h; cases h
  | cons x xs ih =>
    intro h
    rw [List.foldr_cons]
    generalize hacc : xs.foldr dedupStep [] = acc at ih
    rcases List.mem_cons.1 h with rfl | h'
    · cases acc with
      | nil => simp [dedupStep]
      | cons z rest =>
        unfold dedupStep
        simp only
        split
        · next hyz => have : y = z := by simpa using hyz
                      rw [this]; exact List.mem_cons_self
        · exact List.mem_cons_self
    · have hm := ih h'
      cases acc with
      | nil => cases hm
      | cons z rest =>
        unfold dedupStep
        simp only
        split
        · exact hm
        · exact List.mem_cons_of_mem _ hm

theorem zsh_mem_sortDedup (l : List Str) (y : Str) (h : y ∈ l) : y ∈ sortDedup l := by
  unfold sortDedup
  exact zsh_mem_dedup y _ ((zsh_mem_sorted l y []).2 (Or.inr h))

theorem infix_joinLines : ∀ (l : List Str) (x : Str), x ∈ l → x <:+: joinLines l
  | [], x, h => by cases h
  | [a], x, h => by simp at h; subst h; exact List.infix_refl _
  | a :: b :: r, x, h => by
    unfold joinLines
    rcases List.mem_cons.1 h with rfl | h'
    · exact infix_append_left _ (infix_append_left _ (List.infix_refl _))
    · exact infix_append_right _ (infix_joinLines (b :: r) x h')

theorem infix_flatten (l : List Str) (x : Str) (h : x ∈ l) : x <:+: l.flatten := by
  have := infix_flatMap l id x h
  simpa [List.flatMap_id] using this

/-- **every command of the tree has its `_<bin>_commands` function in the zsh script** -/
theorem zsh_commands_fn (fuel : Nat) (root : ZNode) (nm bin : Str) (h : (nm, bin) ∈ allSubcommands root) (n : ZNode)
    (hp : parserOf root bin = some n) : commandsFn bin n <:+: script fuel root := by
  have h1 : commandsFn bin n <:+: subcommandDetails root := by
    unfold subcommandDetails
    apply infix_joinLines
    refine List.mem_cons_of_mem _ (List.mem_map.2 ⟨bin, zsh_mem_sortDedup _ _ (List.mem_map.2 ⟨(nm, bin), h, rfl⟩), ?_⟩)
    simp [hp]
  exact List.IsInfix.trans h1 (infix_flatten _ _ (by simp [scriptParts]))

theorem zsh_root_commands_fn (fuel : Nat) (root : ZNode) : commandsFn root.binName root <:+: script fuel root := by
  have h1 : commandsFn root.binName root <:+: subcommandDetails root := by
    unfold subcommandDetails
    exact infix_joinLines _ _ List.mem_cons_self
  exact List.IsInfix.trans h1 (infix_flatten _ _ (by simp [scriptParts]))

theorem zsh_root_args (fuel : Nat) (root : ZNode) : getArgsOf root <:+: script fuel root :=
  infix_flatten _ _ (by simp [scriptParts])

/-- the `_<bin>_commands` function names every subcommand and visible alias of its command -/
theorem zsh_commands_fn_has_name (bin : Str) (n c : ZNode) (hc : c ∈ n.subs) (nm : Str) (hn : nm ∈ c.name :: c.aliases) :
    (s "'" ++ nm ++ s ":" ++ escapeHelp (c.about.getD []) ++ s "' \\") <:+: commandsFn bin n := by
  have hseg : (s "'" ++ nm ++ s ":" ++ escapeHelp (c.about.getD []) ++ s "' \\") ∈
      n.subs.flatMap fun c => (c.name :: c.aliases).map fun nm => s "'" ++ nm ++ s ":" ++ escapeHelp (c.about.getD []) ++ s "' \\" :=
    List.mem_flatMap.2 ⟨c, hc, List.mem_map.2 ⟨nm, hn, rfl⟩⟩
  have h1 : (s "'" ++ nm ++ s ":" ++ escapeHelp (c.about.getD []) ++ s "' \\") <:+: subcommandsOf n := by
    unfold subcommandsOf
    simp only
    split
    · next he => rw [List.isEmpty_iff] at he; rw [he] at hseg; cases hseg
    · exact infix_joinLines _ _ (List.mem_append_left _ (List.mem_append_right _ hseg))
  unfold commandsFn
  exact List.IsInfix.trans h1 (infix_flatten _ _ (by simp))

/-! ### the `_arguments` spec of a level names its options; the spec of every level is in the script -/

theorem infix_of_nonempty_guard (x y : Str) (rest1 rest2 : List Str) (h : x <:+: y) :
    x <:+: joinLines (rest1 ++ (if y.isEmpty then [] else [y]) ++ rest2) := by
  by_cases hy : y.isEmpty = true
  · rw [List.isEmpty_iff] at hy
    subst hy
    have : x = [] := List.infix_nil.1 h
    subst this
    exact List.nil_infix
  · exact List.IsInfix.trans h (infix_joinLines _ _ (by simp [hy]))

/-- every long spelling (name or visible alias) of a value-taking option is in its level's spec -/
theorem zsh_args_has_opt_long (n : ZNode) (o : ZArg) (ho : o ∈ n.args) (ht : o.takes = true) (hp : o.positional = false)
    (l : Str) (hl : l ∈ o.longsAll) : (s "--" ++ l ++ s "=[") <:+: getArgsOf n := by
  have hline : ∃ pre suf, (pre ++ (s "--" ++ l ++ s "=[") ++ suf) ∈
      ((n.args.filter fun a => a.takes && !a.positional).flatMap fun o =>
        let help := escapeHelp (o.help.getD [])
        let vc := vcOf o
        (o.shortsAll.map fun sh => s "'" ++ conflictsText o ++ starText o ++ s "-" ++ sh ++ s "+[" ++ help ++ s "]" ++ vc ++ s "' \\") ++
        (o.longsAll.map fun l => s "'" ++ conflictsText o ++ starText o ++ s "--" ++ l ++ s "=[" ++ help ++ s "]" ++ vc ++ s "' \\")) := by
    refine ⟨s "'" ++ conflictsText o ++ starText o, ?_, ?_⟩
    rotate_left
    · refine List.mem_flatMap.2 ⟨o, List.mem_filter.2 ⟨ho, by simp [ht, hp]⟩, ?_⟩
      refine List.mem_append_right _ (List.mem_map.2 ⟨l, hl, ?_⟩)
      simp only [List.append_assoc]
      rfl
  rcases hline with ⟨pre, suf, hm⟩
  have h1 : (s "--" ++ l ++ s "=[") <:+: writeOptsOf n.args :=
    List.IsInfix.trans ⟨pre, suf, rfl⟩ (infix_joinLines _ _ hm)
  unfold getArgsOf
  simp only
  have := infix_of_nonempty_guard _ _ [s "_arguments \"${_arguments_options[@]}\" : \\"]
    ((if (writeFlagsOf n.args).isEmpty then [] else [writeFlagsOf n.args]) ++ (if (writePositionalsOf n).isEmpty then [] else [writePositionalsOf n]) ++
      (if n.subs.isEmpty then [] else [s "\":: :_" ++ uu n.binName ++ s "_commands\" \\", s "\"*::: :->" ++ n.name ++ s "\" \\"]) ++ [s "&& ret=0"]) h1
  simpa [List.append_assoc] using this

/-- the value part of an option's spec carries the option's value completion (its possible values), whether the value
is mandatory, repeated or optional (the latter after the `fix:` for finding F24) -/
theorem zsh_vc_has_completion (o : ZArg) (v : Str) (h : valueCompletion o = some v) : v <:+: vcOf o := by
  unfold vcOf
  simp only [h]
  split
  · exact ⟨s ":" ++ (s ":" ++ o.valueName.getD (s " ") ++ s ":"), [], by simp [List.append_assoc]⟩
  · next hm =>
    cases hn : o.minVals with
    | zero => simp [hn] at hm
    | succ k =>
      rw [List.replicate_succ, List.flatten_cons]
      exact ⟨s ":" ++ o.valueName.getD (s " ") ++ s ":", (List.replicate k (s ":" ++ o.valueName.getD (s " ") ++ s ":" ++ v)).flatten, by simp [List.append_assoc]⟩

/-- the whole spec line of a value-taking option - name, help and value part - is in its level's spec -/
theorem zsh_args_has_opt_spec (n : ZNode) (o : ZArg) (ho : o ∈ n.args) (ht : o.takes = true) (hp : o.positional = false)
    (l : Str) (hl : l ∈ o.longsAll) :
    (s "--" ++ l ++ s "=[" ++ escapeHelp (o.help.getD []) ++ s "]" ++ vcOf o) <:+: getArgsOf n := by
  have hm : (s "'" ++ conflictsText o ++ starText o ++ s "--" ++ l ++ s "=[" ++ escapeHelp (o.help.getD []) ++ s "]" ++ vcOf o ++ s "' \\") ∈
      ((n.args.filter fun a => a.takes && !a.positional).flatMap fun o =>
        let help := escapeHelp (o.help.getD [])
        let vc := vcOf o
        (o.shortsAll.map fun sh => s "'" ++ conflictsText o ++ starText o ++ s "-" ++ sh ++ s "+[" ++ help ++ s "]" ++ vc ++ s "' \\") ++
        (o.longsAll.map fun l => s "'" ++ conflictsText o ++ starText o ++ s "--" ++ l ++ s "=[" ++ help ++ s "]" ++ vc ++ s "' \\")) := by
    refine List.mem_flatMap.2 ⟨o, List.mem_filter.2 ⟨ho, by simp [ht, hp]⟩, ?_⟩
    exact List.mem_append_right _ (List.mem_map.2 ⟨l, hl, rfl⟩)
  have h1 : (s "--" ++ l ++ s "=[" ++ escapeHelp (o.help.getD []) ++ s "]" ++ vcOf o) <:+: writeOptsOf n.args :=
    List.IsInfix.trans ⟨s "'" ++ conflictsText o ++ starText o, s "' \\", by simp [List.append_assoc]⟩ (infix_joinLines _ _ hm)
  unfold getArgsOf
  simp only
  have := infix_of_nonempty_guard _ _ [s "_arguments \"${_arguments_options[@]}\" : \\"]
    ((if (writeFlagsOf n.args).isEmpty then [] else [writeFlagsOf n.args]) ++ (if (writePositionalsOf n).isEmpty then [] else [writePositionalsOf n]) ++
      (if n.subs.isEmpty then [] else [s "\":: :_" ++ uu n.binName ++ s "_commands\" \\", s "\"*::: :->" ++ n.name ++ s "\" \\"]) ++ [s "&& ret=0"]) h1
  simpa [List.append_assoc] using this

/-- hence the possible values of every value-taking option of a level are in that level's spec -/
theorem zsh_args_has_opt_values (n : ZNode) (o : ZArg) (ho : o ∈ n.args) (ht : o.takes = true) (hp : o.positional = false)
    (l : Str) (hl : l ∈ o.longsAll) (v : Str) (hv : valueCompletion o = some v) : v <:+: getArgsOf n :=
  List.IsInfix.trans (List.IsInfix.trans (zsh_vc_has_completion o v hv)
    ⟨s "--" ++ l ++ s "=[" ++ escapeHelp (o.help.getD []) ++ s "]", [], by simp [List.append_assoc]⟩)
    (zsh_args_has_opt_spec n o ho ht hp l hl)

/-- the long name of a flag is in its level's spec -/
theorem zsh_args_has_flag_long (n : ZNode) (f : ZArg) (hf : f ∈ n.args) (ht : f.takes = false) (hp : f.positional = false)
    (l : Str) (hl : f.long1 = some l) : (s "--" ++ l ++ s "[") <:+: getArgsOf n := by
  have hm : (s "'" ++ conflictsText f ++ starText f ++ s "--" ++ l ++ s "[" ++ escapeHelp (f.help.getD []) ++ s "]' \\") ∈
      ((n.args.filter fun a => !a.takes && !a.positional).flatMap fun f =>
        let help := escapeHelp (f.help.getD [])
        let line := fun (dash name : Str) => s "'" ++ conflictsText f ++ starText f ++ dash ++ name ++ s "[" ++ help ++ s "]' \\"
        (match f.short1 with | some sh => line (s "-") sh :: f.shortAliases.map (line (s "-")) | none => []) ++
        (match f.long1 with | some l => line (s "--") l :: f.longAliases.map (line (s "--")) | none => [])) := by
    refine List.mem_flatMap.2 ⟨f, List.mem_filter.2 ⟨hf, by simp [ht, hp]⟩, ?_⟩
    refine List.mem_append_right _ ?_
    rw [hl]
    exact List.mem_cons_self
  have h1 : (s "--" ++ l ++ s "[") <:+: writeFlagsOf n.args :=
    List.IsInfix.trans ⟨s "'" ++ conflictsText f ++ starText f, escapeHelp (f.help.getD []) ++ s "]' \\", by simp [List.append_assoc]⟩
      (infix_joinLines _ _ hm)
  unfold getArgsOf
  simp only
  have := infix_of_nonempty_guard _ _ ([s "_arguments \"${_arguments_options[@]}\" : \\"] ++ (if (writeOptsOf n.args).isEmpty then [] else [writeOptsOf n.args]))
    ((if (writePositionalsOf n).isEmpty then [] else [writePositionalsOf n]) ++
      (if n.subs.isEmpty then [] else [s "\":: :_" ++ uu n.binName ++ s "_commands\" \\", s "\"*::: :->" ++ n.name ++ s "\" \\"]) ++ [s "&& ret=0"]) h1
  simpa [List.append_assoc] using this

/-- the `case` block of a level carries, for each subcommand found by its bin name, that subcommand's spec and its own
`case` block -/
theorem zsh_sub_block (fuel : Nat) (parent c : ZNode) (hc : c ∈ parent.subs) (hp : parserOf parent c.binName = some c) :
    getArgsOf c <:+: getSubcommandsOf (fuel + 1) parent ∧ getSubcommandsOf fuel c <:+: getSubcommandsOf (fuel + 1) parent := by
  have hne : parent.subs.isEmpty = false := by
    cases hs : parent.subs with
    | nil => rw [hs] at hc; cases hc
    | cons _ _ => rfl
  have hpair : (c.name, c.binName) ∈ subcommandPairs parent :=
    List.mem_flatMap.2 ⟨c, hc, List.mem_map.2 ⟨c.name, List.mem_cons_self, rfl⟩⟩
  have key : ∀ x : Str, x <:+: joinLines ([s "(" ++ c.name ++ s ")"] ++ (if (getArgsOf c).isEmpty then [] else [getArgsOf c]) ++
      (if (getSubcommandsOf fuel c).isEmpty then [] else [getSubcommandsOf fuel c]) ++ [s ";;"]) → x <:+: getSubcommandsOf (fuel + 1) parent := by
    intro x hx
    unfold getSubcommandsOf
    simp only [hne, Bool.false_eq_true, if_false]
    have hblock : joinLines ([s "(" ++ c.name ++ s ")"] ++ (if (getArgsOf c).isEmpty then [] else [getArgsOf c]) ++
        (if (getSubcommandsOf fuel c).isEmpty then [] else [getSubcommandsOf fuel c]) ++ [s ";;"]) ∈
        (subcommandPairs parent).map fun (nm, bin) =>
          match parserOf parent bin with
          | none => s "<INTERNAL ERROR>"
          | some sc =>
            joinLines ([s "(" ++ nm ++ s ")"] ++ (if (getArgsOf sc).isEmpty then [] else [getArgsOf sc]) ++
              (if (getSubcommandsOf fuel sc).isEmpty then [] else [getSubcommandsOf fuel sc]) ++ [s ";;"]) := by
      refine List.mem_map.2 ⟨(c.name, c.binName), hpair, ?_⟩
      simp only [hp]
    have h2 := List.IsInfix.trans hx (infix_joinLines _ _ hblock)
    exact infix_append_left _ (infix_append_right _ h2)
  constructor
  · apply key
    have := infix_of_nonempty_guard (getArgsOf c) (getArgsOf c) [s "(" ++ c.name ++ s ")"]
      ((if (getSubcommandsOf fuel c).isEmpty then [] else [getSubcommandsOf fuel c]) ++ [s ";;"]) (List.infix_refl _)
    simpa [List.append_assoc] using this
  · apply key
    have := infix_of_nonempty_guard (getSubcommandsOf fuel c) (getSubcommandsOf fuel c)
      ([s "(" ++ c.name ++ s ")"] ++ (if (getArgsOf c).isEmpty then [] else [getArgsOf c])) [s ";;"] (List.infix_refl _)
    simpa [List.append_assoc] using this

/-- a chain of subcommands each found by its bin name from its parent (the generator's own lookup), with its length -/
inductive ZPath : ZNode → ZNode → Nat → Prop
  | one {p c : ZNode} : c ∈ p.subs → parserOf p c.binName = some c → ZPath p c 1
  | cons {p c n : ZNode} {d : Nat} : c ∈ p.subs → parserOf p c.binName = some c → ZPath c n d → ZPath p n (d + 1)

theorem zsh_path_block {p n : ZNode} {d : Nat} (h : ZPath p n d) : ∀ fuel, d ≤ fuel → getArgsOf n <:+: getSubcommandsOf fuel p := by
  induction h with
  | one hc hp =>
    intro fuel hf
    cases fuel with
    | zero => omega
    | succ f => exact (zsh_sub_block f _ _ hc hp).1
  | cons hc hp _ ih =>
    intro fuel hf
    cases fuel with
    | zero => omega
    | succ f => exact List.IsInfix.trans (ih f (by omega)) (zsh_sub_block f _ _ hc hp).2

/-- **the `_arguments` spec of every command of the tree is in the zsh script**, at any depth, once the fuel covers the
depth (the driver passes the height of the tree) -/
theorem zsh_level_args (fuel : Nat) (root n : ZNode) (d : Nat) (h : ZPath root n d) (hf : d ≤ fuel) :
    getArgsOf n <:+: script fuel root :=
  List.IsInfix.trans (zsh_path_block h fuel hf) (infix_flatten _ _ (by simp [scriptParts]))

/-- so every long option spelling of every level is in the script -/
theorem zsh_script_has_opt_long (fuel : Nat) (root n : ZNode) (d : Nat) (h : ZPath root n d) (hf : d ≤ fuel)
    (o : ZArg) (ho : o ∈ n.args) (ht : o.takes = true) (hp : o.positional = false) (l : Str) (hl : l ∈ o.longsAll) :
    (s "--" ++ l ++ s "=[") <:+: script fuel root :=
  List.IsInfix.trans (zsh_args_has_opt_long n o ho ht hp l hl) (zsh_level_args fuel root n d h hf)

/-! non-vacuity: a three-level tree whose chain meets `ZPath`, with an option two levels down -/
def zb : ZNode := .mk ['b'] ['p', ' ', 'a', ' ', 'b'] none [] [{ id := ['o'], takes := true, longsAll := [['o', 'o']] }] []
def za : ZNode := .mk ['a'] ['p', ' ', 'a'] none [] [] [zb]
def zr : ZNode := .mk ['p'] ['p'] none [] [] [za]
example : ZPath zr zb 2 :=
  .cons (c := za) List.mem_cons_self (by simp [parserOf, parserOfList, zr, za, ZNode.binName])
    (.one List.mem_cons_self (by simp [parserOf, parserOfList, zb, za, ZNode.binName]))

end Clap.C16
