/-
C17 — Descriptive text can never change the structure of a generated script.

For every descriptive-text slot of every generator: scanning the escaped text
from the quoting state the slot sits in ends in that same state and meets no
expansion - for EVERY text. Hence whatever follows the text is tokenised
exactly as if the text were not there (`slot_text_invisible`).
-/
import ClapModel
namespace Clap.C17
open Clap Shell

theorem replace1_flatMap (c : Char) (rep : Str) (s : Str) (f : Char → Str) :
    replace1 c rep (s.flatMap f) = s.flatMap fun x => replace1 c rep (f x) := by
  simp [replace1, List.flatMap_assoc]

/-- a chain of replaces acts character by character -/
theorem applyChain_flatMap (chain : List (Char × Str)) (s : Str) :
    applyChain chain s = s.flatMap fun c => applyChain chain [c] := by
  unfold applyChain
  suffices h : ∀ (f : Char → Str), chain.foldl (fun acc p => replace1 p.1 p.2 acc) (s.flatMap f) =
      s.flatMap fun c => chain.foldl (fun acc p => replace1 p.1 p.2 acc) (f c) by
    have := h (fun c => [c]); simpa using this
  induction chain with
  | nil => intro f; rfl
  | cons p ps ih =>
    intro f
    simp only [List.foldl_cons]
    rw [replace1_flatMap]
    exact ih _

/-- a character that is none of the chain's patterns is copied -/
theorem applyChain_other (chain : List (Char × Str)) (c : Char) (h : ∀ p ∈ chain, p.1 ≠ c) : applyChain chain [c] = [c] := by
  unfold applyChain
  induction chain with
  | nil => rfl
  | cons p ps ih =>
    simp only [List.foldl_cons]
    have hne : c ≠ p.1 := fun e => h p List.mem_cons_self e.symm
    have : replace1 p.1 p.2 [c] = [c] := by simp [replace1, hne]
    rw [this]
    exact ih (fun q hq => h q (List.mem_cons_of_mem _ hq))

theorem run_append (step : Step) (st : St) (a b : Str) :
    run step st (a ++ b) = ((run step (run step st a).1 b).1, (run step st a).2 || (run step (run step st a).1 b).2) := by
  induction a generalizing st with
  | nil => simp [run]
  | cons c r ih => simp only [List.cons_append, run, ih]; simp [Bool.or_assoc]

/-- if every character's image leaves the state unchanged and expands nothing, so does the whole text -/
theorem run_flatMap_fixed (step : Step) (ctx : St) (f : Char → Str) (h : ∀ c, run step ctx (f c) = (ctx, false)) (s : Str) :
    run step ctx (s.flatMap f) = (ctx, false) := by
  induction s with
  | nil => rfl
  | cons c r ih => simp only [List.flatMap_cons]; rw [run_append, h c]; simp [ih]

/-- two chains in a row also act character by character -/
theorem chain2_flatMap (c1 c2 : List (Char × Str)) (s : Str) :
    applyChain c2 (applyChain c1 s) = s.flatMap fun c => applyChain c2 (applyChain c1 [c]) := by
  rw [applyChain_flatMap c1 s, applyChain_flatMap c2]
  simp only [List.flatMap_assoc]
  congr 1
  funext c
  exact (applyChain_flatMap c2 _).symm

/-! #### per-character facts (the heart of each slot theorem) -/

theorem fish_help_char (c : Char) :
    run fishStep .sq (applyChain Gen.fishEscapeString (applyChain Gen.fishHelpPre [c])) = (.sq, false) := by
  by_cases h1 : c = Char.ofNat 92
  · subst h1; decide
  · by_cases h2 : c = Char.ofNat 39
    · subst h2; decide
    · by_cases h3 : c = Char.ofNat 10
      · subst h3; decide
      · have e1 : applyChain Gen.fishHelpPre [c] = [c] := applyChain_other _ c (by
          intro p hp; simp [Gen.fishHelpPre] at hp; subst hp; exact fun e => h3 e.symm)
        have e2 : applyChain Gen.fishEscapeString [c] = [c] := applyChain_other _ c (by
          intro p hp; simp [Gen.fishEscapeString] at hp
          rcases hp with rfl | rfl
          · exact fun e => h1 e.symm
          · exact fun e => h2 e.symm)
        rw [e1, e2]
        have b1 : (c == '\\') = false := by simpa using h1
        have b2 : (c == '\'') = false := by simpa using h2
        simp [run, fishStep, b1, b2]

theorem zsh_help_char (c : Char) : run zshStep .sq (applyChain Gen.zshEscapeHelp [c]) = (.sq, false) := by
  by_cases h1 : c = Char.ofNat 92
  · subst h1; decide
  by_cases h2 : c = Char.ofNat 39
  · subst h2; decide
  by_cases h3 : c = Char.ofNat 91
  · subst h3; decide
  by_cases h4 : c = Char.ofNat 93
  · subst h4; decide
  by_cases h5 : c = Char.ofNat 58
  · subst h5; decide
  by_cases h6 : c = Char.ofNat 36
  · subst h6; decide
  by_cases h7 : c = Char.ofNat 96
  · subst h7; decide
  by_cases h8 : c = Char.ofNat 10
  · subst h8; decide
  have e : applyChain Gen.zshEscapeHelp [c] = [c] := applyChain_other _ c (by
    intro p hp; simp [Gen.zshEscapeHelp] at hp
    rcases hp with rfl | rfl | rfl | rfl | rfl | rfl | rfl | rfl
    · exact fun e => h1 e.symm
    · exact fun e => h2 e.symm
    · exact fun e => h3 e.symm
    · exact fun e => h4 e.symm
    · exact fun e => h5 e.symm
    · exact fun e => h6 e.symm
    · exact fun e => h7 e.symm
    · exact fun e => h8 e.symm)
  rw [e]
  have b2 : (c == '\'') = false := by simpa using h2
  simp [run, zshStep, b2]

theorem zsh_poshelp_char (c : Char) : run zshStep .sq (applyChain Gen.zshPositionalHelp [c]) = (.sq, false) := by
  by_cases h1 : c = Char.ofNat 91
  · subst h1; decide
  by_cases h2 : c = Char.ofNat 93
  · subst h2; decide
  by_cases h3 : c = Char.ofNat 39
  · subst h3; decide
  by_cases h4 : c = Char.ofNat 58
  · subst h4; decide
  have e : applyChain Gen.zshPositionalHelp [c] = [c] := applyChain_other _ c (by
    intro p hp; simp [Gen.zshPositionalHelp] at hp
    rcases hp with rfl | rfl | rfl | rfl
    · exact fun e => h1 e.symm
    · exact fun e => h2 e.symm
    · exact fun e => h3 e.symm
    · exact fun e => h4 e.symm)
  rw [e]
  have b : (c == '\'') = false := by simpa using h3
  simp [run, zshStep, b]

theorem elvish_help_char (c : Char) :
    run elvishStep .sq (applyChain Gen.elvishEscapeString (applyChain Gen.elvishHelpPre [c])) = (.sq, false) := by
  by_cases h1 : c = Char.ofNat 39
  · subst h1; decide
  by_cases h2 : c = Char.ofNat 10
  · subst h2; decide
  have e1 : applyChain Gen.elvishHelpPre [c] = [c] := applyChain_other _ c (by
    intro p hp; simp [Gen.elvishHelpPre] at hp; subst hp; exact fun e => h2 e.symm)
  have e2 : applyChain Gen.elvishEscapeString [c] = [c] := applyChain_other _ c (by
    intro p hp; simp [Gen.elvishEscapeString] at hp; subst hp; exact fun e => h1 e.symm)
  rw [e1, e2]
  have b : (c == '\'') = false := by simpa using h1
  simp [run, elvishStep, b]

theorem nu_help_char (c : Char) : run nuStep .cm (applyChain Gen.nuSingleLine [c]) = (.cm, false) := by
  by_cases h1 : c = Char.ofNat 10
  · subst h1; decide
  have e : applyChain Gen.nuSingleLine [c] = [c] := applyChain_other _ c (by
    intro p hp; simp [Gen.nuSingleLine] at hp; subst hp; exact fun e => h1 e.symm)
  rw [e]
  have b : (c == '\n') = false := by simpa using h1
  simp [run, nuStep, b]

theorem pwsh_help_char (c : Char) :
    run pwshStep .sq (applyChain Gen.pwshEscapeString (applyChain Gen.pwshHelpPre [c])) = (.sq, false) := by
  by_cases h0 : c = Char.ofNat 10
  · subst h0; decide
  by_cases h1 : c = Char.ofNat 39
  · subst h1; decide
  by_cases h2 : c = Char.ofNat 8216
  · subst h2; decide
  by_cases h3 : c = Char.ofNat 8217
  · subst h3; decide
  by_cases h4 : c = Char.ofNat 8218
  · subst h4; decide
  by_cases h5 : c = Char.ofNat 8219
  · subst h5; decide
  have e1 : applyChain Gen.pwshHelpPre [c] = [c] := applyChain_other _ c (by
    intro p hp; simp [Gen.pwshHelpPre] at hp; subst hp; exact fun e => h0 e.symm)
  have e2 : applyChain Gen.pwshEscapeString [c] = [c] := applyChain_other _ c (by
    intro p hp; simp [Gen.pwshEscapeString] at hp
    rcases hp with rfl | rfl | rfl | rfl | rfl
    · exact fun e => h1 e.symm
    · exact fun e => h2 e.symm
    · exact fun e => h3 e.symm
    · exact fun e => h4 e.symm
    · exact fun e => h5 e.symm)
  rw [e1, e2]
  have q : isPwshQuote c = false := by
    simp only [isPwshQuote, Bool.or_eq_false_iff, beq_eq_false_iff_ne, ne_eq]
    exact ⟨⟨⟨⟨h1, h2⟩, h3⟩, h4⟩, h5⟩
  simp [run, pwshStep, q]

/-! #### the slot theorems -/

/-- the slots for which the property holds -/
def sound : Sh → Slot → Bool
  | .fish, .pvHelp => false       -- double-quoted context, single-quote escaper: see `fish_pv_help_breaks_out`
  | _, _ => true

/-- **the text never leaves its literal**: for every text, scanning what the generator writes for it,
starting in the quoting state of its slot, ends in that state and triggers no expansion -/
theorem slot_text_stays_inside (sh : Sh) (slot : Slot) (h : sound sh slot = true) (t : Str) :
    run (stepOf sh) (slotCtx sh slot) (slotEscape sh slot t) = (slotCtx sh slot, false) := by
  have fishH : run fishStep .sq (applyChain Gen.fishEscapeString (applyChain Gen.fishHelpPre t)) = (.sq, false) := by
    rw [chain2_flatMap]; exact run_flatMap_fixed _ _ _ fish_help_char t
  have zshH : run zshStep .sq (applyChain Gen.zshEscapeHelp t) = (.sq, false) := by
    rw [applyChain_flatMap]; exact run_flatMap_fixed _ _ _ zsh_help_char t
  have zshP : run zshStep .sq (applyChain Gen.zshPositionalHelp t) = (.sq, false) := by
    rw [applyChain_flatMap]; exact run_flatMap_fixed _ _ _ zsh_poshelp_char t
  have elvH : run elvishStep .sq (applyChain Gen.elvishEscapeString (applyChain Gen.elvishHelpPre t)) = (.sq, false) := by
    rw [chain2_flatMap]; exact run_flatMap_fixed _ _ _ elvish_help_char t
  have pwH : run pwshStep .sq (applyChain Gen.pwshEscapeString (applyChain Gen.pwshHelpPre t)) = (.sq, false) := by
    rw [chain2_flatMap]; exact run_flatMap_fixed _ _ _ pwsh_help_char t
  have nuH : run nuStep .cm (applyChain Gen.nuSingleLine t) = (.cm, false) := by
    rw [applyChain_flatMap]; exact run_flatMap_fixed _ _ _ nu_help_char t
  cases sh with
  | fish => cases slot with
    | help => exact fishH
    | posHelp => exact fishH
    | pvHelp => exact absurd h (by decide)
  | zsh => cases slot with
    | help => exact zshH
    | posHelp => exact zshP
    | pvHelp => exact zshH
  | pwsh => cases slot <;> exact pwH
  | elvish => cases slot <;> exact elvH
  | nu => cases slot <;> exact nuH

/-- **non-interference**: whatever follows the text in the script is scanned from the same state,
and with the same result, as if the text were empty - for every text and every continuation -/
theorem slot_text_invisible (sh : Sh) (slot : Slot) (h : sound sh slot = true) (t rest : Str) :
    run (stepOf sh) (slotCtx sh slot) (slotEscape sh slot t ++ rest) = run (stepOf sh) (slotCtx sh slot) rest := by
  rw [run_append, slot_text_stays_inside sh slot h t]; simp

/-! #### zsh, second level: the `_arguments` spec survives too -/

/-- the image of one character under a chain -/
def img (chain : List (Char × Str)) (c : Char) : Str := applyChain chain [c]

theorem zshUnqSq_quote (rest : Str) : zshUnqSq (['\'', '\\', '\'', '\''] ++ rest) = '\'' :: zshUnqSq rest := by
  simp [zshUnqSq, zshUnq]

theorem zshUnqSq_cons (c : Char) (h : c ≠ '\'') (rest : Str) : zshUnqSq (c :: rest) = c :: zshUnqSq rest := by
  have : (c == '\'') = false := by simpa using h
  simp [zshUnqSq, zshUnq, this]

/-- per character: reading the shell-quoted image gives the spec-level image -/
theorem zsh_unq_char (c : Char) (rest : Str) :
    zshUnqSq (img Gen.zshEscapeHelp c ++ rest) = img zshHelpSpecChain c ++ zshUnqSq rest := by
  have q : ('\\' : Char) ≠ '\'' := by decide
  by_cases h1 : c = Char.ofNat 92
  · subst h1
    rw [show img Gen.zshEscapeHelp (Char.ofNat 92) = ['\\', '\\'] by decide, show img zshHelpSpecChain (Char.ofNat 92) = ['\\', '\\'] by decide]
    simp [zshUnqSq_cons _ q]
  by_cases h2 : c = Char.ofNat 39
  · subst h2
    rw [show img Gen.zshEscapeHelp (Char.ofNat 39) = ['\'', '\\', '\'', '\''] by decide, show img zshHelpSpecChain (Char.ofNat 39) = ['\''] by decide]
    rw [zshUnqSq_quote]; rfl
  by_cases h3 : c = Char.ofNat 91
  · subst h3
    rw [show img Gen.zshEscapeHelp (Char.ofNat 91) = ['\\', '['] by decide, show img zshHelpSpecChain (Char.ofNat 91) = ['\\', '['] by decide]
    simp [zshUnqSq_cons _ q, zshUnqSq_cons '[' (by decide)]
  by_cases h4 : c = Char.ofNat 93
  · subst h4
    rw [show img Gen.zshEscapeHelp (Char.ofNat 93) = ['\\', ']'] by decide, show img zshHelpSpecChain (Char.ofNat 93) = ['\\', ']'] by decide]
    simp [zshUnqSq_cons _ q, zshUnqSq_cons ']' (by decide)]
  by_cases h5 : c = Char.ofNat 58
  · subst h5
    rw [show img Gen.zshEscapeHelp (Char.ofNat 58) = ['\\', ':'] by decide, show img zshHelpSpecChain (Char.ofNat 58) = ['\\', ':'] by decide]
    simp [zshUnqSq_cons _ q, zshUnqSq_cons ':' (by decide)]
  by_cases h6 : c = Char.ofNat 36
  · subst h6
    rw [show img Gen.zshEscapeHelp (Char.ofNat 36) = ['\\', '$'] by decide, show img zshHelpSpecChain (Char.ofNat 36) = ['\\', '$'] by decide]
    simp [zshUnqSq_cons _ q, zshUnqSq_cons '$' (by decide)]
  by_cases h7 : c = Char.ofNat 96
  · subst h7
    rw [show img Gen.zshEscapeHelp (Char.ofNat 96) = ['\\', '`'] by decide, show img zshHelpSpecChain (Char.ofNat 96) = ['\\', '`'] by decide]
    simp [zshUnqSq_cons _ q, zshUnqSq_cons '`' (by decide)]
  by_cases h8 : c = Char.ofNat 10
  · subst h8
    rw [show img Gen.zshEscapeHelp (Char.ofNat 10) = [' '] by decide, show img zshHelpSpecChain (Char.ofNat 10) = [' '] by decide]
    simp [zshUnqSq_cons ' ' (by decide)]
  have e : img Gen.zshEscapeHelp c = [c] := applyChain_other _ c (by
    intro p hp; simp [Gen.zshEscapeHelp] at hp
    rcases hp with rfl | rfl | rfl | rfl | rfl | rfl | rfl | rfl
    · exact fun e => h1 e.symm
    · exact fun e => h2 e.symm
    · exact fun e => h3 e.symm
    · exact fun e => h4 e.symm
    · exact fun e => h5 e.symm
    · exact fun e => h6 e.symm
    · exact fun e => h7 e.symm
    · exact fun e => h8 e.symm)
  have e' : img zshHelpSpecChain c = [c] := applyChain_other _ c (by
    intro p hp
    have hp' : p ∈ Gen.zshEscapeHelp := (List.mem_filter.1 hp).1
    simp [Gen.zshEscapeHelp] at hp'
    rcases hp' with rfl | rfl | rfl | rfl | rfl | rfl | rfl | rfl
    · exact fun e => h1 e.symm
    · exact fun e => h2 e.symm
    · exact fun e => h3 e.symm
    · exact fun e => h4 e.symm
    · exact fun e => h5 e.symm
    · exact fun e => h6 e.symm
    · exact fun e => h7 e.symm
    · exact fun e => h8 e.symm)
  rw [e, e']
  exact zshUnqSq_cons c h2 rest

/-- **what `_arguments` receives**: after the shell has read the single-quoted word, the help text is
exactly its spec-level escaping (the quote handling is gone, nothing else changed) -/
theorem zsh_unquote_help (t rest : Str) :
    zshUnqSq (applyChain Gen.zshEscapeHelp t ++ rest) = applyChain zshHelpSpecChain t ++ zshUnqSq rest := by
  rw [applyChain_flatMap Gen.zshEscapeHelp, applyChain_flatMap zshHelpSpecChain]
  induction t with
  | nil => rfl
  | cons c r ih =>
    simp only [List.flatMap_cons, List.append_assoc]
    have := zsh_unq_char c (r.flatMap (fun c => applyChain Gen.zshEscapeHelp [c]) ++ rest)
    simp only [img] at this
    rw [this, ih]

theorem specRun_append (stop : Char) (a b : Str) (esc : Bool) :
    specRun stop esc (a ++ b) = ((specRun stop (specRun stop esc a).1 b).1, (specRun stop esc a).2 || (specRun stop (specRun stop esc a).1 b).2) := by
  induction a generalizing esc with
  | nil => simp [specRun]
  | cons c r ih =>
    simp only [List.cons_append, specRun]
    split
    · exact ih false
    · split
      · exact ih true
      · simp only [ih false]
        cases (specRun stop false r).2 <;> cases (c == stop) <;> simp

theorem spec_char (stop : Char) (hs : stop = ']' ∨ stop = ':') (c : Char) :
    specRun stop false (img zshHelpSpecChain c) = (false, false) := by
  by_cases h1 : c = Char.ofNat 92
  · subst h1; rcases hs with rfl | rfl <;> decide
  by_cases h3 : c = Char.ofNat 91
  · subst h3; rcases hs with rfl | rfl <;> decide
  by_cases h4 : c = Char.ofNat 93
  · subst h4; rcases hs with rfl | rfl <;> decide
  by_cases h5 : c = Char.ofNat 58
  · subst h5; rcases hs with rfl | rfl <;> decide
  by_cases h6 : c = Char.ofNat 36
  · subst h6; rcases hs with rfl | rfl <;> decide
  by_cases h7 : c = Char.ofNat 96
  · subst h7; rcases hs with rfl | rfl <;> decide
  by_cases h8 : c = Char.ofNat 10
  · subst h8; rcases hs with rfl | rfl <;> decide
  have e' : img zshHelpSpecChain c = [c] := applyChain_other _ c (by
    intro p hp
    have hp' : p ∈ Gen.zshEscapeHelp := (List.mem_filter.1 hp).1
    have hq : p.1 ≠ '\'' := by simpa using (List.mem_filter.1 hp).2
    simp [Gen.zshEscapeHelp] at hp'
    rcases hp' with rfl | rfl | rfl | rfl | rfl | rfl | rfl | rfl
    · exact fun e => h1 e.symm
    · exact absurd rfl hq
    · exact fun e => h3 e.symm
    · exact fun e => h4 e.symm
    · exact fun e => h5 e.symm
    · exact fun e => h6 e.symm
    · exact fun e => h7 e.symm
    · exact fun e => h8 e.symm)
  rw [e']
  have b1 : (c == '\\') = false := by simpa using h1
  have b2 : (c == stop) = false := by
    rcases hs with rfl | rfl
    · simpa using h4
    · simpa using h5
  simp [specRun, b1, b2]

/-- **the description never ends its own field**: inside `[description]` no unquoted `]`, inside
`name:description` no unquoted `:`, and the text does not end on a dangling backslash - for every text -/
theorem zsh_spec_help_closed (stop : Char) (hs : stop = ']' ∨ stop = ':') (t : Str) :
    specRun stop false (applyChain zshHelpSpecChain t) = (false, false) := by
  rw [applyChain_flatMap]
  induction t with
  | nil => rfl
  | cons c r ih =>
    simp only [List.flatMap_cons]
    rw [specRun_append]
    have := spec_char stop hs c
    simp only [img] at this
    rw [this, ih]; rfl

/-! #### the slots where it fails (concrete witnesses) -/

/-- fish puts possible-value help inside a double-quoted `-a "…"` argument but escapes it for single
quotes: a `"` in the help ends the string … -/
theorem fish_pv_help_breaks_out : run fishStep .dq (slotEscape .fish .pvHelp ['"']) = (.n false, false) := by decide

/-- … and a `$` in it is expanded when the script is sourced -/
theorem fish_pv_help_expands : (run fishStep .dq (slotEscape .fish .pvHelp ['$', 'x'])).2 = true := by decide

/-- what the PowerShell escaper did before it covered all five quote characters (F18): with only `'` and
U+2019 doubled, a U+2018 in the help leaves the scanner waiting for the second quote of a pair, so
the closing quote of the literal is swallowed -/
theorem pwsh_old_chain_breaks_out :
    run pwshStep .sq (applyChain [(Char.ofNat 39, [Char.ofNat 39, Char.ofNat 39]), (Char.ofNat 8217, [Char.ofNat 39, Char.ofNat 8217])]
      [Char.ofNat 8216]) = (.sqQ, false) := by decide

end Clap.C17
