/-
C02 / C08 — attribution for short clusters: `-abc` (flags), `-ovalue`, `-o=value`, `-o value`, and clusters ending in
a value-taking short (`-abovalue`), mixed with long options and positional values on command lines of any length.
-/
import ClapProofs.C02Attr2
import ClapProofs.C13
import ClapProofs.Lemmas.Utf8Char
namespace Clap.C02
open Clap Parser Bytes

/-! #### the iterator after `n` flags -/

def advN (sf : ShortFlags) : Nat → ShortFlags
  | 0 => sf
  | n+1 => advN sf.nextFlag.1 n

theorem advN_spec : ∀ (n : Nat) (sf : ShortFlags), n ≤ sf.chars.length → C13.Inv sf →
    (advN sf n).chars = sf.chars.drop n ∧ (advN sf n).invalid = sf.invalid ∧ C13.Inv (advN sf n)
  | 0, sf, _, hi => ⟨by simp [advN], rfl, hi⟩
  | n+1, sf, hn, hi => by
    cases hc : sf.chars with
    | nil => rw [hc] at hn; simp at hn
    | cons ch cs =>
      have hinv := (C13.nextFlag_lossless sf hi).2.1
      have hnf : sf.nextFlag.1.chars = cs ∧ sf.nextFlag.1.invalid = sf.invalid := by
        unfold ShortFlags.nextFlag; rw [hc]; exact ⟨rfl, rfl⟩
      have := advN_spec n sf.nextFlag.1 (by rw [hnf.1]; rw [hc] at hn; simpa using hn) hinv
      unfold advN
      rw [hnf.1, hnf.2] at this
      simpa using this

/-! #### the flags of a cluster: one `react` each -/

/-- the abstract effect of the flags of a cluster -/
def runFlags (c : Cmd) : List Arg → P → R Unit
  | [], p => (p, .ok ())
  | a :: as, p =>
    match react c (some .short) .cmdline a [] none p with
    | (p1, .error e) => (p1, .error e)
    | (p1, .ok _) => runFlags c as p1

/-- **the flag loop on known flags**: as long as the unread characters are shorts of args that take no value, the
loop performs one `react` per character, in order, and goes on with the rest of the cluster -/
theorem shortLoop_flags (c : Cmd) : ∀ (fs : List (Bytes × Arg)) (sf : ShortFlags) (more : List Bytes) (fuel consumed : Nat)
    (ret : ParseResult) (vaf : Bool) (p : P),
    sf.chars = fs.map (·.1) ++ more → fs.length ≤ fuel →
    (∀ x ∈ fs, c.getShort x.1 = some x.2 ∧ x.2.takesValue = false) →
    shortLoop c sf fuel consumed ret vaf p =
      match runFlags c (fs.map (·.2)) p with
      | (p1, .error e) => (p1, .error e)
      | (p1, .ok ()) =>
        shortLoop c (advN sf fs.length) (fuel - fs.length) (consumed + fs.length)
          (if fs.isEmpty then ret else .valuesDone) (vaf || !fs.isEmpty) p1
  | [], sf, more, fuel, consumed, ret, vaf, p, _, _, _ => by simp [runFlags, advN]
  | (ch, a) :: fs, sf, more, fuel, consumed, ret, vaf, p, hc, hf, hk => by
    cases fuel with
    | zero => simp at hf
    | succ fuel =>
      obtain ⟨hget, htv⟩ := hk (ch, a) List.mem_cons_self
      simp only at hget htv
      have hc' : sf.chars = ch :: (fs.map (·.1) ++ more) := by simpa using hc
      have hnf : sf.nextFlag = ({ sf with chars := fs.map (·.1) ++ more, off := sf.off + ch.length }, .ch ch) := by
        unfold ShortFlags.nextFlag; rw [hc']
      rw [shortLoop]
      simp only [hnf, hget, htv, Bool.not_false, ↓reduceIte, List.map_cons, runFlags]
      have hres := C01.react_result c (some .short) .cmdline a [] none p
      cases hr : react c (some .short) .cmdline a [] none p with
      | mk p1 r =>
        rw [hr] at hres
        cases r with
        | error e => rfl
        | ok r' =>
          have := hres r' rfl
          subst this
          simp only
          have ih := shortLoop_flags c fs { sf with chars := fs.map (·.1) ++ more, off := sf.off + ch.length } more fuel
            (consumed + 1) .valuesDone true p1 rfl (by simpa using hf) (fun x hx => hk x (List.mem_cons_of_mem _ hx))
          rw [ih]
          have hadv : advN sf (fs.length + 1) = advN { sf with chars := fs.map (·.1) ++ more, off := sf.off + ch.length } fs.length := by
            conv => lhs; unfold advN
            rw [hnf]
          simp only [List.length_cons, hadv, Nat.add_sub_add_right, List.isEmpty_cons, Bool.false_eq_true, ↓reduceIte,
            Bool.not_false, Bool.or_true, Bool.true_or, ite_self]
          have : consumed + 1 + fs.length = consumed + (fs.length + 1) := by omega
          rw [this]

/-- the cluster is used up: the loop hands back what the last flag answered -/
theorem shortLoop_done (c : Cmd) (sf : ShortFlags) (fuel consumed : Nat) (ret : ParseResult) (vaf : Bool) (p : P)
    (hc : sf.chars = []) (hi : sf.invalid = none) :
    shortLoop c sf fuel consumed ret vaf p = (p, .ok (ret, vaf)) := by
  cases fuel with
  | zero => rw [shortLoop]
  | succ fuel =>
    have hnf : sf.nextFlag = (sf, .done) := by unfold ShortFlags.nextFlag; rw [hc, hi]
    rw [shortLoop]
    simp only [hnf]

/-- what `-o…` attaches to the option `o`: nothing, the bytes after a `=`, or the bytes as they are -/
def attachedOf (val0 : Bytes) : Option Bytes × Bool :=
  let val : Option Bytes := if val0.isEmpty then none else some val0
  match val.bind fun v => Bytes.stripPrefix v [Bytes.eq] with
  | some v => (some v, true)
  | none => (val, false)

theorem shortAttached_eq (sf : ShortFlags) (hi : C13.Inv sf) : shortAttached sf = attachedOf (C13.unread sf) := by
  unfold shortAttached attachedOf
  rw [(C13.nextValueOs_unread sf hi).1]
  rfl

theorem attachedOf_nil : attachedOf [] = (none, false) := rfl
theorem attachedOf_eq (v : Bytes) : attachedOf (Bytes.eq :: v) = (some v, true) := by
  simp [attachedOf, Bytes.stripPrefix]
theorem attachedOf_plain (v : Bytes) (hne : v ≠ []) (hv : Bytes.startsWith v [Bytes.eq] = false) :
    attachedOf v = (some v, false) := by
  cases v with
  | nil => exact absurd rfl hne
  | cons x xs =>
    have hx : (x == Bytes.eq) = false := by simpa [Bytes.startsWith] using hv
    simp [attachedOf, Bytes.stripPrefix, hx]

/-- the next character is the short of a value-taking option: the rest of the cluster is its attached value -/
theorem shortLoop_opt (c : Cmd) (sf : ShortFlags) (o : Bytes) (more : List Bytes) (a : Arg) (fuel consumed : Nat)
    (ret : ParseResult) (vaf : Bool) (p : P) (hi : C13.Inv sf)
    (hc : sf.chars = o :: more) (hget : c.getShort o = some a) (htv : a.takesValue = true) :
    shortLoop c sf (fuel + 1) consumed ret vaf p =
      match parseOptValue c .short (attachedOf (C13.unread sf.nextFlag.1)).1 a (attachedOf (C13.unread sf.nextFlag.1)).2 p with
      | (p1, .error e) => (p1, .error e)
      | (p1, .ok .attachedValueNotConsumed) => shortLoop c sf.nextFlag.1 fuel (consumed + 1) ret true p1
      | (p1, .ok x) => (p1, .ok (x, true)) := by
  have hnf : sf.nextFlag = ({ sf with chars := more, off := sf.off + o.length }, .ch o) := by
    unfold ShortFlags.nextFlag; rw [hc]
  have hi1 : C13.Inv sf.nextFlag.1 := (C13.nextFlag_lossless sf hi).2.1
  rw [shortLoop]
  rw [hnf] at hi1 ⊢
  simp only [hget, htv, Bool.not_true, Bool.false_eq_true, ↓reduceIte, shortAttached_eq _ hi1]
  cases parseOptValue c Ident.short _ a _ p with
  | mk p1 r =>
    cases r with
    | error e => rfl
    | ok x => cases x <;> rfl

/-! #### a cluster as a token -/

/-- no positional of the level takes hyphen values or negative numbers (otherwise a `-x…` token may be its value) -/
structure PlainPos (c : Cmd) : Prop where
  plain : ∀ a ∈ c.args, a.index.isSome = true → a.allowHyphen = false ∧ a.allowNegative = false

/-- the iterator over `cs.flatten ++ tail` for well-formed characters `cs`: they come first, and after them exactly
`tail` is unread -/
theorem new_chars (cs : List Bytes) (hcs : ∀ ch ∈ cs, Utf8.IsChar ch) (tail : Bytes) :
    (ShortFlags.new (cs.flatten ++ tail)).chars = cs ++ (Utf8.splitValid tail).1 ∧
    C13.Inv (ShortFlags.new (cs.flatten ++ tail)) ∧
    C13.unread (advN (ShortFlags.new (cs.flatten ++ tail)) cs.length) = tail := by
  have hsv := Utf8.splitValid_chars cs hcs tail
  have hinv := (C13.inv_new (cs.flatten ++ tail)).1
  have hch : (ShortFlags.new (cs.flatten ++ tail)).chars = cs ++ (Utf8.splitValid tail).1 := by
    unfold ShortFlags.new; rw [hsv]
  have hiv : (ShortFlags.new (cs.flatten ++ tail)).invalid =
      if (Utf8.splitValid tail).2.isEmpty then none else some (Utf8.splitValid tail).2 := by
    unfold ShortFlags.new; rw [hsv]
  refine ⟨hch, hinv, ?_⟩
  obtain ⟨h1, h2, _⟩ := advN_spec cs.length _ (by rw [hch]; simp) hinv
  have hl := Utf8.splitValid_lossless tail
  unfold Utf8.chars Utf8.invalidRest at hl
  unfold C13.unread
  rw [h1, h2, hch, hiv]
  simp only [List.drop_left]
  cases hr : (Utf8.splitValid tail).2 with
  | nil => rw [hr] at hl; simpa using hl
  | cons x xs => rw [hr] at hl; simpa using hl

theorem parseShortArg_plain (c : Cmd) (pp : PlainPos c) (sf : ShortFlags) (pc : Nat) (vaf : Bool) (p : P)
    (hfss : p.flagSubSkip = 0) :
    parseShortArg c sf .valuesDone pc vaf p = shortLoop c sf (sf.chars.length + 2) 0 .noArg vaf p := by
  have hp0 : ({ p with flagSubSkip := 0 } : P) = p := by cases p; simp_all
  have hpos : ((c.getPos pc).map (·.allowNegative)).getD false = false ∧
      ((c.getPos pc).map fun a => a.allowHyphen && !a.last).getD false = false := by
    cases hg : c.getPos pc with
    | none => simp
    | some a =>
      obtain ⟨hm, hk⟩ := C01.getKey_mem hg
      obtain ⟨h1, h2⟩ := pp.plain a hm (by rw [C01.keys_pos_index hk]; rfl)
      simp [h1, h2]
  unfold parseShortArg
  simp only [stateArg, Option.map_none, Option.getD_none, hfss, bne_self_eq_false, Bool.not_false, Bool.true_and,
    Bool.false_eq_true, ↓reduceIte, hpos.1, hpos.2, Bool.false_and, ShortFlags.advanceBy, hp0]

/-- a cluster token is neither `--`, nor a long, and lexes as a short cluster over the bytes after the `-` -/
theorem cluster_lex (inner : Bytes) (hne : inner ≠ []) (hnd : Bytes.startsWith inner [dash] = false) :
    ParsedArg.isEscape (dash :: inner) = false ∧ ParsedArg.toLong (dash :: inner) = none ∧
    ParsedArg.toShort (dash :: inner) = some (ShortFlags.new inner) := by
  cases inner with
  | nil => exact absurd rfl hne
  | cons x xs =>
    have hx : (x == dash) = false := by simpa [Bytes.startsWith] using hnd
    refine ⟨?_, ?_, ?_⟩
    · unfold ParsedArg.isEscape
      apply Bool.eq_false_iff.2
      intro heq
      have : dash :: x :: xs = [dash, dash] := by simpa using heq
      simp at this
      rw [this.1] at hx; simp at hx
    · simp [ParsedArg.toLong, Bytes.stripPrefix, hx]
    · simp [ParsedArg.toShort, Bytes.stripPrefix, Bytes.startsWith, hx]

theorem flatten_noDash : ∀ (cs : List Bytes) (tail : Bytes), (∀ ch ∈ cs, Utf8.IsChar ch ∧ Bytes.startsWith ch [dash] = false) →
    cs ≠ [] → (cs.flatten ++ tail) ≠ [] ∧ Bytes.startsWith (cs.flatten ++ tail) [dash] = false
  | [], _, _, h => absurd rfl h
  | ch :: cs, tail, hcs, _ => by
    obtain ⟨hc, hd⟩ := hcs ch List.mem_cons_self
    cases ch with
    | nil => exact absurd rfl (Utf8.isChar_ne_nil hc)
    | cons x xs =>
      have hx : (x == dash) = false := by simpa [Bytes.startsWith] using hd
      simp [Bytes.startsWith, hx]

/-! #### what the flag loop makes of a whole cluster -/

/-- the flags of a cluster with the args they name -/
def FlagsOk (c : Cmd) (fs : List (Bytes × Arg)) : Prop :=
  ∀ x ∈ fs, Utf8.IsChar x.1 ∧ Bytes.startsWith x.1 [dash] = false ∧ c.getShort x.1 = some x.2 ∧ x.2.takesValue = false

theorem FlagsOk.chars {c : Cmd} {fs : List (Bytes × Arg)} (h : FlagsOk c fs) : ∀ ch ∈ fs.map (·.1), Utf8.IsChar ch := by
  intro ch hch
  obtain ⟨x, hx, rfl⟩ := List.mem_map.1 hch
  exact (h x hx).1

theorem FlagsOk.keys {c : Cmd} {fs : List (Bytes × Arg)} (h : FlagsOk c fs) :
    ∀ x ∈ fs, c.getShort x.1 = some x.2 ∧ x.2.takesValue = false :=
  fun x hx => ⟨(h x hx).2.2.1, (h x hx).2.2.2⟩

/-- `-abc`: one `react` per flag, then the cluster is done -/
theorem shortLoop_cluster_flags (c : Cmd) (fs : List (Bytes × Arg)) (hfs : FlagsOk c fs) (hne : fs ≠ []) (vaf : Bool) (p : P) :
    shortLoop c (ShortFlags.new (fs.map (·.1)).flatten) ((ShortFlags.new (fs.map (·.1)).flatten).chars.length + 2) 0 .noArg vaf p =
      match runFlags c (fs.map (·.2)) p with
      | (p1, .error e) => (p1, .error e)
      | (p1, .ok ()) => (p1, .ok (.valuesDone, true)) := by
  obtain ⟨hch, hinv, _⟩ := new_chars (fs.map (·.1)) hfs.chars []
  rw [List.append_nil] at hch hinv
  have hsv : Utf8.splitValid [] = ([], []) := rfl
  rw [hsv] at hch
  simp only [List.append_nil] at hch
  have hiv : (ShortFlags.new (fs.map (·.1)).flatten).invalid = none := by
    have := Utf8.splitValid_chars (fs.map (·.1)) hfs.chars []
    rw [List.append_nil, hsv] at this
    unfold ShortFlags.new; rw [this]; rfl
  rw [shortLoop_flags c fs _ [] _ 0 .noArg vaf p (by rw [hch]; simp) (by rw [hch]; simp) hfs.keys]
  cases hr : runFlags c (fs.map (·.2)) p with
  | mk p1 r =>
    cases r with
    | error e => rfl
    | ok u =>
      obtain ⟨h1, h2, _⟩ := advN_spec fs.length _ (by rw [hch]; simp) hinv
      have hfe : fs.isEmpty = false := by cases fs <;> simp_all
      simp only [hfe]
      rw [shortLoop_done c _ _ _ _ _ _ (by rw [h1, hch]; simp) (by rw [h2, hiv])]
      simp

/-- `parse_opt_value` when `require_equals` does not interfere -/
theorem parseOptValue_plain (c : Cmd) (ident : Ident) (attached : Option Bytes) (a : Arg) (hasEq : Bool) (p : P)
    (hreq : (a.requireEquals && !hasEq) = false) :
    parseOptValue c ident attached a hasEq p =
      match attached with
      | some v =>
        match react c (some ident) .cmdline a [v] none p with
        | (p1, .error e) => (p1, .error e)
        | (p1, .ok _) => (p1, .ok .valuesDone)
      | none =>
        match resolvePending c p with
        | (q, .error e) => (q, .error e)
        | (q, .ok ()) => ({ q with pending := some { id := a.id, ident := some ident, rawVals := [], trailingIdx := none } }, .ok (.opt a.id)) := by
  unfold parseOptValue
  simp only [hreq, Bool.false_eq_true, ↓reduceIte]
  cases attached with
  | some v =>
    simp only
    have hres := C01.react_result c (some ident) .cmdline a [v] none p
    cases hr : react c (some ident) .cmdline a [v] none p with
    | mk p1 r =>
      rw [hr] at hres
      cases r with
      | error e => rfl
      | ok r' => have := hres r' rfl; subst this; simp
  | none =>
    simp only
    cases hr : resolvePending c p with
    | mk q r =>
      cases r with
      | error e => rfl
      | ok u =>
        have hq := resolvePending_ok_pending c p q u hr
        simp [pendingPush, hq]

/-- `-ab…o<tail>`: the flags react, then the option gets what `tail` attaches -/
theorem shortLoop_cluster_opt (c : Cmd) (fs : List (Bytes × Arg)) (hfs : FlagsOk c fs) (o : Bytes) (a : Arg)
    (ho : Utf8.IsChar o) (hget : c.getShort o = some a) (htv : a.takesValue = true) (tail : Bytes)
    (hreq : (a.requireEquals && !(attachedOf tail).2) = false) (vaf : Bool) (p : P) :
    shortLoop c (ShortFlags.new ((fs.map (·.1)).flatten ++ (o ++ tail)))
        ((ShortFlags.new ((fs.map (·.1)).flatten ++ (o ++ tail))).chars.length + 2) 0 .noArg vaf p =
      match runFlags c (fs.map (·.2)) p with
      | (p1, .error e) => (p1, .error e)
      | (p1, .ok ()) =>
        match (attachedOf tail).1 with
        | some v =>
          match react c (some .short) .cmdline a [v] none p1 with
          | (p2, .error e) => (p2, .error e)
          | (p2, .ok _) => (p2, .ok (.valuesDone, true))
        | none =>
          match resolvePending c p1 with
          | (q, .error e) => (q, .error e)
          | (q, .ok ()) =>
            ({ q with pending := some { id := a.id, ident := some .short, rawVals := [], trailingIdx := none } }, .ok (.opt a.id, true)) := by
  obtain ⟨hch, hinv, hun⟩ := new_chars (fs.map (·.1)) hfs.chars (o ++ tail)
  have hsv : (Utf8.splitValid (o ++ tail)).1 = o :: (Utf8.splitValid tail).1 := by
    rw [Utf8.isChar_append ho]; rfl
  rw [hsv] at hch
  rw [shortLoop_flags c fs _ _ _ 0 .noArg vaf p hch (by rw [hch]; simp; omega) hfs.keys]
  cases hr : runFlags c (fs.map (·.2)) p with
  | mk p1 r =>
    cases r with
    | error e => rfl
    | ok u =>
      obtain ⟨h1, h2, h3⟩ := advN_spec fs.length _ (by rw [hch]; simp) hinv
      rw [hch] at h1
      simp only [List.length_map, List.drop_left'] at h1 hun
      have h1' : (advN (ShortFlags.new ((fs.map (·.1)).flatten ++ (o ++ tail))) fs.length).chars = o :: (Utf8.splitValid tail).1 := by
        simpa using h1
      -- what is unread after `o`
      have hun' : C13.unread (advN (ShortFlags.new ((fs.map (·.1)).flatten ++ (o ++ tail))) fs.length).nextFlag.1 = tail := by
        have hl := (C13.nextFlag_lossless _ h3).1
        have hnf : (advN (ShortFlags.new ((fs.map (·.1)).flatten ++ (o ++ tail))) fs.length).nextFlag.2 = .ch o := by
          unfold ShortFlags.nextFlag; rw [h1']
        rw [hnf, hun] at hl
        simp only [C13.flagBytes] at hl
        exact (List.append_cancel_left hl).symm
      have hfuel : (ShortFlags.new ((fs.map (·.1)).flatten ++ (o ++ tail))).chars.length + 2 - fs.length =
          ((Utf8.splitValid tail).1.length + 2) + 1 := by
        rw [hch]; simp; omega
      simp only [hfuel]
      rw [shortLoop_opt c _ o _ a _ _ _ _ p1 h3 h1' hget htv, hun', parseOptValue_plain c .short _ a _ p1 hreq]
      cases hat : (attachedOf tail).1 with
      | some v =>
        simp only
        cases hr2 : react c (some .short) .cmdline a [v] none p1 with
        | mk p2 r2 => cases r2 <;> rfl
      | none =>
        simp only
        cases hr2 : resolvePending c p1 with
        | mk q r2 =>
          cases r2 with
          | error e => rfl
          | ok u2 => rfl

/-! #### a cluster as one step of the token loop -/

/-- **`-abc`** in the ground state: one `react` per flag, in order, then on with the rest -/
theorem loop_flags_step (c : Cmd) (pp : PlainPos c) (similar : Bytes → Bytes → Bool)
    (fs : List (Bytes × Arg)) (hns : NoSubTok c (dash :: (fs.map (·.1)).flatten)) (hfs : FlagsOk c fs) (hne : fs ≠ [])
    (ls : LoopSt) (rest : List Bytes) (p : P) (htr : ls.trailing = false) (hst : ls.st = .valuesDone)
    (hfss : p.flagSubSkip = 0) :
    loop c similar ls ((dash :: (fs.map (·.1)).flatten) :: rest) p =
      match runFlags c (fs.map (·.2)) p with
      | (p1, .error e) => (p1, .error e)
      | (p1, .ok ()) => loop c similar { ls with validArgFound := true } rest p1 := by
  have hsc := hns ls.validArgFound
  have hnd := flatten_noDash (fs.map (·.1)) [] (by
    intro ch hch
    obtain ⟨x, hx, rfl⟩ := List.mem_map.1 hch
    exact ⟨(hfs x hx).1, (hfs x hx).2.1⟩) (by simpa using hne)
  rw [List.append_nil] at hnd
  obtain ⟨hesc, htl, hts⟩ := cluster_lex _ hnd.1 hnd.2
  rw [loop]
  simp only [htr, Bool.false_eq_true, ↓reduceIte, hsc, ite_self, hesc, htl, hts, hst, parseShortArg_plain c pp _ _ _ p hfss,
    shortLoop_cluster_flags c fs hfs hne]
  cases hr : runFlags c (fs.map (·.2)) p with
  | mk p1 r =>
    cases r with
    | error e => rfl
    | ok u => rfl

/-- **`-ab…ovalue` / `-ab…o=value`** in the ground state: the flags, then one `react` on the option with exactly the
attached bytes -/
theorem loop_opt_step (c : Cmd) (pp : PlainPos c) (similar : Bytes → Bytes → Bool)
    (fs : List (Bytes × Arg)) (hfs : FlagsOk c fs) (o : Bytes) (a : Arg) (ho : Utf8.IsChar o)
    (hod : Bytes.startsWith o [dash] = false) (hget : c.getShort o = some a) (htv : a.takesValue = true)
    (tail v : Bytes) (hns : NoSubTok c (dash :: ((fs.map (·.1)).flatten ++ (o ++ tail)))) (hat : (attachedOf tail).1 = some v) (hreq : (a.requireEquals && !(attachedOf tail).2) = false)
    (ls : LoopSt) (rest : List Bytes) (p : P) (htr : ls.trailing = false) (hst : ls.st = .valuesDone)
    (hfss : p.flagSubSkip = 0) :
    loop c similar ls ((dash :: ((fs.map (·.1)).flatten ++ (o ++ tail))) :: rest) p =
      match runFlags c (fs.map (·.2)) p with
      | (p1, .error e) => (p1, .error e)
      | (p1, .ok ()) =>
        match react c (some .short) .cmdline a [v] none p1 with
        | (p2, .error e) => (p2, .error e)
        | (p2, .ok _) => loop c similar { ls with validArgFound := true } rest p2 := by
  have hsc := hns ls.validArgFound
  have hnd := flatten_noDash (fs.map (·.1) ++ [o]) tail (by
    intro ch hch
    rcases List.mem_append.1 hch with hch | hch
    · obtain ⟨x, hx, rfl⟩ := List.mem_map.1 hch
      exact ⟨(hfs x hx).1, (hfs x hx).2.1⟩
    · simp at hch; subst hch; exact ⟨ho, hod⟩) (by simp)
  have hfl : (fs.map (·.1) ++ [o]).flatten ++ tail = (fs.map (·.1)).flatten ++ (o ++ tail) := by simp
  rw [hfl] at hnd
  obtain ⟨hesc, htl, hts⟩ := cluster_lex _ hnd.1 hnd.2
  rw [loop]
  simp only [htr, Bool.false_eq_true, ↓reduceIte, hsc, ite_self, hesc, htl, hts, hst, parseShortArg_plain c pp _ _ _ p hfss,
    shortLoop_cluster_opt c fs hfs o a ho hget htv tail hreq, hat]
  cases hr : runFlags c (fs.map (·.2)) p with
  | mk p1 r =>
    cases r with
    | error e => rfl
    | ok u =>
      simp only
      cases hr2 : react c (some .short) .cmdline a [v] none p1 with
      | mk p2 r2 =>
        cases r2 with
        | error e => rfl
        | ok x => rfl

/-- the value token of `-o value` / `--name value`, whichever way the option was named -/
theorem loop_value_step' (c : Cmd) (similar : Bytes → Bytes → Bool) (v : Bytes) (hnsv : NoSubTok c v) (a : Arg) (i : Ident)
    (hfind : c.find a.id = some a)
    (hv : Bytes.startsWith v [dash] = false) (hnum : a.getNumArgs = Range.single) (hterm : a.terminator = none)
    (ls : LoopSt) (rest : List Bytes) (q : P) (htr : ls.trailing = false) (hst : ls.st = .opt a.id)
    (hq : q.pending = some { id := a.id, ident := some i, rawVals := [], trailingIdx := none }) :
    loop c similar ls (v :: rest) q =
      loop c similar { ls with st := .valuesDone } rest
        { q with pending := some { id := a.id, ident := some i, rawVals := [v], trailingIdx := none } } := by
  have hsc := hnsv ls.validArgFound
  obtain ⟨hvesc, hvlong, hvshort⟩ := noDash_lex hv
  have hterm' : isTerminator a v = false := by simp [isTerminator, hterm]
  have hnm : needsMoreVals { q with pending := some { id := a.id, ident := some i, rawVals := [v], trailingIdx := none } } a = false := by
    simp [needsMoreVals, hnum, Range.single, Range.acceptsMore]
  rw [loop]
  simp only [htr, Bool.false_eq_true, ↓reduceIte, hsc, ite_self, hvesc, hvlong, hvshort, optValuePart, hst, hfind, hterm',
    pendingPush, hq, Option.getD_some, bne_self_eq_false, Option.isSome_none, Bool.false_and, List.nil_append, hnm]

/-- **`-ab…o value`** in the ground state: the flags, then the value of the next token is left pending, verbatim,
for the option -/
theorem loop_optsep_step (c : Cmd) (wf : C01.WF c) (pp : PlainPos c) (similar : Bytes → Bytes → Bool)
    (fs : List (Bytes × Arg)) (hfs : FlagsOk c fs) (o : Bytes) (a : Arg) (ho : Utf8.IsChar o)
    (hod : Bytes.startsWith o [dash] = false) (hget : c.getShort o = some a) (htv : a.takesValue = true)
    (v : Bytes) (hns : NoSubTok c (dash :: ((fs.map (·.1)).flatten ++ o))) (hnsv : NoSubTok c v) (hv : Bytes.startsWith v [dash] = false) (hnum : a.getNumArgs = Range.single)
    (hreq : a.requireEquals = false) (hterm : a.terminator = none)
    (ls : LoopSt) (rest : List Bytes) (p : P) (htr : ls.trailing = false) (hst : ls.st = .valuesDone)
    (hfss : p.flagSubSkip = 0) :
    loop c similar ls ((dash :: ((fs.map (·.1)).flatten ++ o)) :: v :: rest) p =
      match runFlags c (fs.map (·.2)) p with
      | (p1, .error e) => (p1, .error e)
      | (p1, .ok ()) =>
        match resolvePending c p1 with
        | (q, .error e) => (q, .error e)
        | (q, .ok ()) =>
          loop c similar { ls with validArgFound := true } rest
            { q with pending := some { id := a.id, ident := some .short, rawVals := [v], trailingIdx := none } } := by
  have hsc := hns ls.validArgFound
  obtain ⟨hfind, _⟩ := C01.getShort_spec wf hget
  have hnd := flatten_noDash (fs.map (·.1) ++ [o]) [] (by
    intro ch hch
    rcases List.mem_append.1 hch with hch | hch
    · obtain ⟨x, hx, rfl⟩ := List.mem_map.1 hch
      exact ⟨(hfs x hx).1, (hfs x hx).2.1⟩
    · simp at hch; subst hch; exact ⟨ho, hod⟩) (by simp)
  have hfl : (fs.map (·.1) ++ [o]).flatten ++ [] = (fs.map (·.1)).flatten ++ (o ++ []) := by simp
  rw [hfl] at hnd
  obtain ⟨hesc, htl, hts⟩ := cluster_lex _ hnd.1 hnd.2
  have hreq' : (a.requireEquals && !(attachedOf []).2) = false := by simp [hreq]
  have ho' : (fs.map (·.1)).flatten ++ o = (fs.map (·.1)).flatten ++ (o ++ []) := by simp
  rw [ho'] at hsc
  rw [ho', loop]
  simp only [htr, Bool.false_eq_true, ↓reduceIte, hsc, ite_self, hesc, htl, hts, hst, parseShortArg_plain c pp _ _ _ p hfss,
    shortLoop_cluster_opt c fs hfs o a ho hget htv [] hreq', attachedOf_nil]
  cases hr : runFlags c (fs.map (·.2)) p with
  | mk p1 r =>
    cases r with
    | error e => rfl
    | ok u =>
      simp only
      cases hr2 : resolvePending c p1 with
      | mk q r2 =>
        cases r2 with
        | error e => rfl
        | ok u2 =>
          simp only
          have := loop_value_step' c similar v hnsv a .short hfind hv hnum hterm
            { st := .opt a.id, posCounter := ls.posCounter, validArgFound := true, trailing := false } rest
            { q with pending := some { id := a.id, ident := some .short, rawVals := [], trailingIdx := none } } rfl rfl rfl
          simpa [hst, htr] using this

/-! #### command lines of long options, short clusters and positional values -/

/-- how the value of the option that ends a cluster is written -/
inductive Attach
  | attached   -- `-ovalue`
  | eq         -- `-o=value`
  | sep        -- `-o value`
deriving DecidableEq

/-- a short cluster: flags, then optionally a value-taking short with its value -/
structure COcc where
  flags : List Bytes
  opt : Option (Bytes × Bytes × Attach)

def COcc.spell (o : COcc) : List Bytes :=
  match o.opt with
  | none => [dash :: o.flags.flatten]
  | some (ch, v, .attached) => [dash :: (o.flags.flatten ++ (ch ++ v))]
  | some (ch, v, .eq) => [dash :: (o.flags.flatten ++ (ch ++ Bytes.eq :: v))]
  | some (ch, v, .sep) => [dash :: (o.flags.flatten ++ ch), v]

/-- the cluster is well-formed for the command: every flag character is the short of an arg that takes no value; the
last character, if it carries a value, is the short of an arg that takes one; the attached spelling is not used for
values that are empty or begin with `=`, nor (like the separate one) with `require_equals`; the separate spelling is
for single-valued options without terminator and values that do not look like a flag -/
def COcc.ok (c : Cmd) (o : COcc) : Prop :=
  (∀ tok ∈ o.spell, NoSubTok c tok) ∧
  (o.flags ≠ [] ∨ o.opt.isSome = true) ∧
  (∀ ch ∈ o.flags, Utf8.IsChar ch ∧ Bytes.startsWith ch [dash] = false ∧ ∃ a, c.getShort ch = some a ∧ a.takesValue = false) ∧
  (∀ ch v k, o.opt = some (ch, v, k) →
    Utf8.IsChar ch ∧ Bytes.startsWith ch [dash] = false ∧ ∃ a, c.getShort ch = some a ∧ a.takesValue = true ∧
      match k with
      | .attached => v ≠ [] ∧ Bytes.startsWith v [Bytes.eq] = false ∧ a.requireEquals = false
      | .eq => True
      | .sep => Bytes.startsWith v [dash] = false ∧ a.getNumArgs = Range.single ∧ a.requireEquals = false ∧ a.terminator = none)

/-- an occurrence as the rest of the parser sees it: which key, which value -/
inductive Atom
  | long (name : Bytes) (value : Option Bytes)
  | short (ch : Bytes) (value : Option Bytes)
  | pos (v : Bytes)

/-- the abstract run: one `react` per atom on the arg that owns the key (positionals in index order), with exactly
the atom's value -/
def runAtoms (c : Cmd) : List Atom → Nat → P → R LoopEnd
  | [], _, p => (p, .ok .done)
  | .long n v :: rest, pc, p =>
    match findLong c n with
    | none => (p, .error .unknownArgument)
    | some a =>
      match react c (some .long) .cmdline a v.toList none p with
      | (p1, .error e) => (p1, .error e)
      | (p1, .ok _) => runAtoms c rest pc p1
  | .short ch v :: rest, pc, p =>
    match c.getShort ch with
    | none => (p, .error .unknownArgument)
    | some a =>
      match react c (some .short) .cmdline a v.toList none p with
      | (p1, .error e) => (p1, .error e)
      | (p1, .ok _) => runAtoms c rest pc p1
  | .pos v :: rest, pc, p =>
    match c.getPos pc with
    | none => (p, .error .unknownArgument)
    | some a =>
      match react c (some .index) .cmdline a [v] none p with
      | (p1, .error e) => (p1, .error e)
      | (p1, .ok _) => runAtoms c rest (pc + 1) p1

def COcc.atoms (o : COcc) : List Atom :=
  o.flags.map (fun ch => Atom.short ch none) ++
    match o.opt with
    | none => []
    | some (ch, v, _) => [Atom.short ch (some v)]

inductive Occ3
  | long (o : SOcc)
  | pos (v : Bytes)
  | cluster (o : COcc)

def Occ3.spell : Occ3 → List Bytes
  | .long o => o.spell
  | .pos v => [v]
  | .cluster o => o.spell

def Occ3.atoms : Occ3 → List Atom
  | .long o => [.long o.name o.value]
  | .pos v => [.pos v]
  | .cluster o => o.atoms

def okAll3 (c : Cmd) : List Occ3 → Nat → Prop
  | [], _ => True
  | .long o :: rest, pc => o.ok c ∧ okAll3 c rest pc
  | .cluster o :: rest, pc => o.ok c ∧ okAll3 c rest pc
  | .pos v :: rest, pc => NoSubTok c v ∧ Bytes.startsWith v [dash] = false ∧ (∃ a, c.getPos pc = some a ∧ SinglePos a) ∧ okAll3 c rest (pc + 1)

/-- the positional counter after the occurrences -/
def pcAfter : List Occ3 → Nat → Nat
  | [], pc => pc
  | .pos _ :: rest, pc => pcAfter rest (pc + 1)
  | _ :: rest, pc => pcAfter rest pc

/-! the glue: "whatever is pending is resolved first" as a property of continuations -/

abbrev Obs := Except EK (P × LoopEnd)

/-- `X` resolves what is pending and then behaves like `Y` - for every state whose pending entry satisfies `J`
(`J` excludes pending entries the continuation would rather extend than resolve) -/
def RF (c : Cmd) (J : Option Pending → Prop) (X Y : P → Obs) : Prop :=
  ∀ p, p.flagSubSkip = 0 → J p.pending → X p = match resolvePending c p with
    | (q, .ok ()) => Y q
    | (_, .error e) => .error e

theorem RF.at_none {c : Cmd} {J : Option Pending → Prop} {X Y : P → Obs} (h : RF c J X Y) (hJn : J none) (p : P)
    (h0 : p.flagSubSkip = 0) (hn : p.pending = none) :
    X p = Y p := by
  rw [h p h0 (by rw [hn]; exact hJn), resolvePending_none c p hn]

theorem RF.ofReact {c : Cmd} {J : Option Pending → Prop} {K G : P → Obs} (h : RF c J K G) (hJn : J none)
    (i : Option Ident) (a : Arg) (vals : List Bytes) :
    RF c J (fun p => match react c i .cmdline a vals none p with
            | (_, .error e) => .error e
            | (p1, .ok _) => K p1)
         (fun q => match react c i .cmdline a vals none q with
            | (_, .error e) => .error e
            | (p1, .ok _) => G p1) := by
  intro p h0 _
  simp only
  cases hr : resolvePending c p with
  | mk q r =>
    have hq0 : q.flagSubSkip = 0 := by have := C01.resolvePending_fss c p; rw [hr] at this; rw [this]; exact h0
    cases r with
    | error e => unfold Parser.react; rw [hr]
    | ok u =>
      have hqn : q.pending = none := resolvePending_ok_pending c p q u hr
      have h1 : react c i .cmdline a vals none p = reactCore c i .cmdline a vals none q := by
        unfold Parser.react; rw [hr]
      cases u
      simp only
      rw [h1, react_none c _ _ _ _ _ q hqn]
      have hp := C01.reactCore_pending c i .cmdline a vals none q
      have hf := C01.reactCore_fss c i .cmdline a vals none q
      cases hrc : reactCore c i .cmdline a vals none q with
      | mk p1 r1 =>
        rw [hrc] at hp hf
        cases r1 with
        | error e => rfl
        | ok x => exact h.at_none hJn p1 (by rw [hf]; exact hq0) (by rw [hp]; exact hqn)

theorem RF.ofPend {c : Cmd} {J : Option Pending → Prop} {K G : P → Obs} (h : RF c J K G) (i : Ident) (a : Arg) (v : Bytes)
    (hfind : c.find a.id = some a) (hJp : J (some { id := a.id, ident := some i, rawVals := [v], trailingIdx := none })) :
    RF c J (fun p => match resolvePending c p with
            | (_, .error e) => .error e
            | (q, .ok ()) => K { q with pending := some { id := a.id, ident := some i, rawVals := [v], trailingIdx := none } })
         (fun q => match react c (some i) .cmdline a [v] none q with
            | (_, .error e) => .error e
            | (p1, .ok _) => G p1) := by
  intro p h0 _
  simp only
  cases hr : resolvePending c p with
  | mk q r =>
    have hq0 : q.flagSubSkip = 0 := by have := C01.resolvePending_fss c p; rw [hr] at this; rw [this]; exact h0
    cases r with
    | error e => rfl
    | ok u =>
      have hqn : q.pending = none := resolvePending_ok_pending c p q u hr
      simp only
      rw [h _ (by exact hq0) hJp, resolvePending_some' c q a i v hqn hfind, react_none c _ _ _ _ _ q hqn]
      have hp := C01.reactCore_pending c (some i) .cmdline a [v] none q
      cases hrc : reactCore c (some i) .cmdline a [v] none q with
      | mk p1 r1 =>
        rw [hrc] at hp
        cases r1 with
        | error e => rfl
        | ok x => rfl

theorem RF.ofFlags {c : Cmd} {J : Option Pending → Prop} {X Y : P → Obs} (h : RF c J X Y) (hJn : J none) : ∀ (as : List Arg),
    RF c J (fun p => match runFlags c as p with
            | (_, .error e) => .error e
            | (p1, .ok ()) => X p1)
         (fun q => match runFlags c as q with
            | (_, .error e) => .error e
            | (p1, .ok ()) => Y p1)
  | [] => by
    intro p h0 hJ
    simp only [runFlags]
    rw [h p h0 hJ]
  | a :: as => by
    have ih := RF.ofFlags h hJn as
    have := RF.ofReact ih hJn (some .short) a []
    intro p h0 hJ
    have hp := this p h0 hJ
    have e1 : ∀ (Z : P → Obs) (p' : P), (match runFlags c (a :: as) p' with
        | (_, .error e) => (.error e : Obs)
        | (p1, .ok ()) => Z p1) =
        (match react c (some .short) .cmdline a [] none p' with
        | (_, .error e) => .error e
        | (p1, .ok _) => match runFlags c as p1 with
          | (_, .error e) => .error e
          | (p1, .ok ()) => Z p1) := by
      intro Z p'
      conv => lhs; unfold runFlags
      cases react c (some .short) .cmdline a [] none p' with
      | mk p1 r => cases r <;> rfl
    simp only at hp ⊢
    rw [e1 X, hp]
    cases resolvePending c p with
    | mk q r =>
      cases r with
      | error e => rfl
      | ok u => simp only; rw [e1 Y]

/-- the flags of an admissible cluster, paired with the args they name -/
theorem zipArgs (c : Cmd) : ∀ (flags : List Bytes),
    (∀ ch ∈ flags, Utf8.IsChar ch ∧ Bytes.startsWith ch [dash] = false ∧ ∃ a, c.getShort ch = some a ∧ a.takesValue = false) →
    ∃ fs : List (Bytes × Arg), fs.map (·.1) = flags ∧ FlagsOk c fs
  | [], _ => ⟨[], rfl, by intro x hx; cases hx⟩
  | ch :: flags, h => by
    obtain ⟨h1, h2, a, h3, h4⟩ := h ch List.mem_cons_self
    obtain ⟨fs, hfs, hok⟩ := zipArgs c flags (fun ch' hch' => h ch' (List.mem_cons_of_mem _ hch'))
    refine ⟨(ch, a) :: fs, by simp [hfs], ?_⟩
    intro x hx
    rcases List.mem_cons.1 hx with rfl | hx
    · exact ⟨h1, h2, h3, h4⟩
    · exact hok x hx

/-- the abstract run with a continuation: one `react` per atom, then `k` on the positional counter and state reached -/
def runAtomsK (c : Cmd) : List Atom → Nat → P → (Nat → P → Obs) → Obs
  | [], pc, p, k => k pc p
  | .long n v :: rest, pc, p, k =>
    match findLong c n with
    | none => .error .unknownArgument
    | some a =>
      match react c (some .long) .cmdline a v.toList none p with
      | (_, .error e) => .error e
      | (p1, .ok _) => runAtomsK c rest pc p1 k
  | .short ch v :: rest, pc, p, k =>
    match c.getShort ch with
    | none => .error .unknownArgument
    | some a =>
      match react c (some .short) .cmdline a v.toList none p with
      | (_, .error e) => .error e
      | (p1, .ok _) => runAtomsK c rest pc p1 k
  | .pos v :: rest, pc, p, k =>
    match c.getPos pc with
    | none => .error .unknownArgument
    | some a =>
      match react c (some .index) .cmdline a [v] none p with
      | (_, .error e) => .error e
      | (p1, .ok _) => runAtomsK c rest (pc + 1) p1 k

/-- with the continuation "the loop is done" this is the abstract run -/
theorem runAtomsK_done (c : Cmd) : ∀ (l : List Atom) (pc : Nat) (p : P),
    runAtomsK c l pc p (fun _ q => .ok (q, .done)) = obsA (runAtoms c l pc p)
  | [], _, _ => rfl
  | .long n v :: rest, pc, p => by
    unfold runAtomsK runAtoms
    cases findLong c n with
    | none => rfl
    | some a =>
      simp only
      cases react c (some .long) .cmdline a v.toList none p with
      | mk p1 r => cases r with | error e => rfl | ok x => exact runAtomsK_done c rest pc p1
  | .short ch v :: rest, pc, p => by
    unfold runAtomsK runAtoms
    cases c.getShort ch with
    | none => rfl
    | some a =>
      simp only
      cases react c (some .short) .cmdline a v.toList none p with
      | mk p1 r => cases r with | error e => rfl | ok x => exact runAtomsK_done c rest pc p1
  | .pos v :: rest, pc, p => by
    unfold runAtomsK runAtoms
    cases c.getPos pc with
    | none => rfl
    | some a =>
      simp only
      cases react c (some .index) .cmdline a [v] none p with
      | mk p1 r => cases r with | error e => rfl | ok x => exact runAtomsK_done c rest (pc + 1) p1

/-- the abstract run on the atoms of a cluster's flags is `runFlags` -/
theorem runAtomsK_flags (c : Cmd) (k : Nat → P → Obs) : ∀ (fs : List (Bytes × Arg)), FlagsOk c fs →
    ∀ (more : List Atom) (pc : Nat) (p : P),
    runAtomsK c ((fs.map (·.1)).map (fun ch => Atom.short ch none) ++ more) pc p k =
      match runFlags c (fs.map (·.2)) p with
      | (_, .error e) => .error e
      | (p1, .ok ()) => runAtomsK c more pc p1 k
  | [], _, more, pc, p => by simp [runFlags]
  | (ch, a) :: fs, h, more, pc, p => by
    have hget := (h (ch, a) List.mem_cons_self).2.2.1
    simp only at hget
    simp only [List.map_cons, List.cons_append, runFlags]
    conv => lhs; unfold runAtomsK
    simp only [hget, Option.toList_none]
    cases hr : react c (some .short) .cmdline a [] none p with
    | mk p1 r =>
      cases r with
      | error e => rfl
      | ok x =>
        simp only
        exact runAtomsK_flags c k fs (fun x hx => h x (List.mem_cons_of_mem _ hx)) more pc p1

theorem runAtomsK_short (c : Cmd) (k : Nat → P → Obs) (ch : Bytes) (a : Arg) (v : Option Bytes) (rest : List Atom) (pc : Nat) (q : P)
    (hget : c.getShort ch = some a) :
    runAtomsK c (.short ch v :: rest) pc q k =
      match react c (some .short) .cmdline a v.toList none q with
      | (_, .error e) => .error e
      | (p1, .ok _) => runAtomsK c rest pc p1 k := by
  conv => lhs; unfold runAtomsK
  simp only [hget]

theorem runAtomsK_long (c : Cmd) (k : Nat → P → Obs) (n : Bytes) (a : Arg) (v : Option Bytes) (rest : List Atom) (pc : Nat) (q : P)
    (hget : findLong c n = some a) :
    runAtomsK c (.long n v :: rest) pc q k =
      match react c (some .long) .cmdline a v.toList none q with
      | (_, .error e) => .error e
      | (p1, .ok _) => runAtomsK c rest pc p1 k := by
  conv => lhs; unfold runAtomsK
  simp only [hget]

theorem runAtomsK_pos (c : Cmd) (k : Nat → P → Obs) (a : Arg) (v : Bytes) (rest : List Atom) (pc : Nat) (q : P)
    (hget : c.getPos pc = some a) :
    runAtomsK c (.pos v :: rest) pc q k =
      match react c (some .index) .cmdline a [v] none q with
      | (_, .error e) => .error e
      | (p1, .ok _) => runAtomsK c rest (pc + 1) p1 k := by
  conv => lhs; unfold runAtomsK
  simp only [hget]

/-- two continuations that resolve-first to the same thing agree on every state -/
theorem RF.congr_rhs {c : Cmd} {J : Option Pending → Prop} {X Y : P → Obs} (h : RF c J X Y) (p : P) (h0 : p.flagSubSkip = 0)
    (hJ : J p.pending) (Y' : P → Obs)
    (hY : ∀ q, q.pending = none → Y q = Y' q) :
    X p = match resolvePending c p with
      | (q, .ok ()) => Y' q
      | (_, .error e) => .error e := by
  rw [h p h0 hJ]
  cases hr : resolvePending c p with
  | mk q r =>
    cases r with
    | error e => rfl
    | ok u => exact hY q (resolvePending_ok_pending c p q u hr)

/-! the step lemmas as the caller of the loop observes them -/

theorem obs_pos_step (c : Cmd) (wf : C01.WF c) (sp : SimplePos c) (similar : Bytes → Bytes → Bool)
    (v : Bytes) (hnsv : NoSubTok c v) (a : Arg) (hsingle : SinglePos a) (hv : Bytes.startsWith v [dash] = false)
    (ls : LoopSt) (rest : List Bytes) (p : P) (htr : ls.trailing = false) (hst : ls.st = .valuesDone)
    (hget : c.getPos ls.posCounter = some a) :
    obs c (loop c similar ls (v :: rest) p) =
      match resolvePending c p with
      | (_, .error e) => .error e
      | (q, .ok ()) =>
        obs c (loop c similar { ls with posCounter := ls.posCounter + 1, validArgFound := true } rest
          { q with pending := some { id := a.id, ident := some .index, rawVals := [v], trailingIdx := none } }) := by
  rw [loop_pos_step c wf sp similar v hnsv a hsingle hv ls rest p htr hst hget]
  cases resolvePending c p with
  | mk q r => cases r <;> rfl

theorem obs_long_step (c : Cmd) (similar : Bytes → Bytes → Bool) (o : LOcc) (hns : NoSubTok c o.spell) (a : Arg)
    (hname : Bytes.eq ∉ o.name) (hne : o.name ≠ []) (hutf : Utf8.valid o.name = true)
    (hget : findLong c o.name = some a) (htv : a.takesValue = o.value.isSome)
    (ls : LoopSt) (rest : List Bytes) (p : P) (htr : ls.trailing = false) (hst : ls.st = .valuesDone) :
    obs c (loop c similar ls (o.spell :: rest) p) =
      match react c (some .long) .cmdline a o.value.toList none p with
      | (_, .error e) => .error e
      | (p1, .ok _) => obs c (loop c similar { ls with validArgFound := true } rest p1) := by
  rw [loop_long_step c similar o hns a hname hne hutf hget htv ls rest p htr hst]
  cases react c (some .long) .cmdline a o.value.toList none p with
  | mk q r => cases r <;> rfl

theorem obs_sep_step (c : Cmd) (wf : C01.WF c) (similar : Bytes → Bytes → Bool) (name v : Bytes)
    (hns : NoSubTok c (dash :: dash :: name)) (hnsv : NoSubTok c v)
    (a : Arg) (hname : Bytes.eq ∉ name) (hne : name ≠ []) (hutf : Utf8.valid name = true)
    (hget : findLong c name = some a) (htv : a.takesValue = true)
    (hv : Bytes.startsWith v [dash] = false) (hnum : a.getNumArgs = Range.single) (hreq : a.requireEquals = false)
    (hterm : a.terminator = none)
    (ls : LoopSt) (rest : List Bytes) (p : P) (htr : ls.trailing = false) (hst : ls.st = .valuesDone) :
    obs c (loop c similar ls ((dash :: dash :: name) :: v :: rest) p) =
      match resolvePending c p with
      | (_, .error e) => .error e
      | (q, .ok ()) =>
        obs c (loop c similar { ls with validArgFound := true } rest
          { q with pending := some { id := a.id, ident := some .long, rawVals := [v], trailingIdx := none } }) := by
  rw [loop_sep_step c wf similar name v hns hnsv a hname hne hutf hget htv hv hnum hreq hterm ls rest p htr hst]
  cases resolvePending c p with
  | mk q r => cases r <;> rfl

theorem obs_flags_step (c : Cmd) (pp : PlainPos c) (similar : Bytes → Bytes → Bool)
    (fs : List (Bytes × Arg)) (hns : NoSubTok c (dash :: (fs.map (·.1)).flatten)) (hfs : FlagsOk c fs) (hne : fs ≠ [])
    (ls : LoopSt) (rest : List Bytes) (p : P) (htr : ls.trailing = false) (hst : ls.st = .valuesDone)
    (hfss : p.flagSubSkip = 0) :
    obs c (loop c similar ls ((dash :: (fs.map (·.1)).flatten) :: rest) p) =
      match runFlags c (fs.map (·.2)) p with
      | (_, .error e) => .error e
      | (p1, .ok ()) => obs c (loop c similar { ls with validArgFound := true } rest p1) := by
  rw [loop_flags_step c pp similar fs hns hfs hne ls rest p htr hst hfss]
  cases runFlags c (fs.map (·.2)) p with
  | mk q r => cases r <;> rfl

theorem obs_opt_step (c : Cmd) (pp : PlainPos c) (similar : Bytes → Bytes → Bool)
    (fs : List (Bytes × Arg)) (hfs : FlagsOk c fs) (o : Bytes) (a : Arg) (ho : Utf8.IsChar o)
    (hod : Bytes.startsWith o [dash] = false) (hget : c.getShort o = some a) (htv : a.takesValue = true)
    (tail v : Bytes) (hns : NoSubTok c (dash :: ((fs.map (·.1)).flatten ++ (o ++ tail))))
    (hat : (attachedOf tail).1 = some v) (hreq : (a.requireEquals && !(attachedOf tail).2) = false)
    (ls : LoopSt) (rest : List Bytes) (p : P) (htr : ls.trailing = false) (hst : ls.st = .valuesDone)
    (hfss : p.flagSubSkip = 0) :
    obs c (loop c similar ls ((dash :: ((fs.map (·.1)).flatten ++ (o ++ tail))) :: rest) p) =
      match runFlags c (fs.map (·.2)) p with
      | (_, .error e) => .error e
      | (p1, .ok ()) =>
        match react c (some .short) .cmdline a [v] none p1 with
        | (_, .error e) => .error e
        | (p2, .ok _) => obs c (loop c similar { ls with validArgFound := true } rest p2) := by
  rw [loop_opt_step c pp similar fs hfs o a ho hod hget htv tail v hns hat hreq ls rest p htr hst hfss]
  cases runFlags c (fs.map (·.2)) p with
  | mk p1 r =>
    cases r with
    | error e => rfl
    | ok u =>
      simp only
      cases react c (some .short) .cmdline a [v] none p1 with
      | mk p2 r2 => cases r2 <;> rfl

theorem obs_optsep_step (c : Cmd) (wf : C01.WF c) (pp : PlainPos c) (similar : Bytes → Bytes → Bool)
    (fs : List (Bytes × Arg)) (hfs : FlagsOk c fs) (o : Bytes) (a : Arg) (ho : Utf8.IsChar o)
    (hod : Bytes.startsWith o [dash] = false) (hget : c.getShort o = some a) (htv : a.takesValue = true)
    (v : Bytes) (hns : NoSubTok c (dash :: ((fs.map (·.1)).flatten ++ o))) (hnsv : NoSubTok c v)
    (hv : Bytes.startsWith v [dash] = false) (hnum : a.getNumArgs = Range.single)
    (hreq : a.requireEquals = false) (hterm : a.terminator = none)
    (ls : LoopSt) (rest : List Bytes) (p : P) (htr : ls.trailing = false) (hst : ls.st = .valuesDone)
    (hfss : p.flagSubSkip = 0) :
    obs c (loop c similar ls ((dash :: ((fs.map (·.1)).flatten ++ o)) :: v :: rest) p) =
      match runFlags c (fs.map (·.2)) p with
      | (_, .error e) => .error e
      | (p1, .ok ()) =>
        match resolvePending c p1 with
        | (_, .error e) => .error e
        | (q, .ok ()) =>
          obs c (loop c similar { ls with validArgFound := true } rest
            { q with pending := some { id := a.id, ident := some .short, rawVals := [v], trailingIdx := none } }) := by
  rw [loop_optsep_step c wf pp similar fs hfs o a ho hod hget htv v hns hnsv hv hnum hreq hterm ls rest p htr hst hfss]
  cases runFlags c (fs.map (·.2)) p with
  | mk p1 r =>
    cases r with
    | error e => rfl
    | ok u =>
      simp only
      cases resolvePending c p1 with
      | mk q r2 => cases r2 <;> rfl

/-- the loop state after the occurrences: the positional counter has moved past the positional values, and a valid
argument has been seen as soon as there was one occurrence -/
def lsAfter (ls : LoopSt) (occs : List Occ3) : LoopSt :=
  { ls with posCounter := pcAfter occs ls.posCounter, validArgFound := ls.validArgFound || !occs.isEmpty }

theorem lsAfter_nil (ls : LoopSt) : lsAfter ls [] = ls := by cases ls; simp [lsAfter, pcAfter]

theorem lsAfter_cons_pos (ls : LoopSt) (v : Bytes) (rest : List Occ3) :
    lsAfter ls (.pos v :: rest) = lsAfter { ls with posCounter := ls.posCounter + 1, validArgFound := true } rest := by
  simp [lsAfter, pcAfter]

theorem lsAfter_cons_long (ls : LoopSt) (o : SOcc) (rest : List Occ3) :
    lsAfter ls (.long o :: rest) = lsAfter { ls with validArgFound := true } rest := by
  simp [lsAfter, pcAfter]

theorem lsAfter_cons_cluster (ls : LoopSt) (o : COcc) (rest : List Occ3) :
    lsAfter ls (.cluster o :: rest) = lsAfter { ls with validArgFound := true } rest := by
  simp [lsAfter, pcAfter]

/-- **the refinement with a continuation**: the occurrences are observed as one `react` each; whatever follows them on
the command line (`tail`) is met in the state they leave, with the loop state `lsAfter` -/
theorem loop_clusters_then (c : Cmd) (wf : C01.WF c) (sp : SimplePos c) (pp : PlainPos c) (similar : Bytes → Bytes → Bool)
    (tail : List Bytes) (J : Option Pending → Prop) (hJn : J none)
    (hJocc : ∀ (a : Arg) (i : Ident) (v : Bytes), c.find a.id = some a → (a.index = none ∨ SinglePos a) →
      J (some { id := a.id, ident := some i, rawVals := [v], trailingIdx := none })) :
    ∀ (occs : List Occ3) (ls : LoopSt), okAll3 c occs ls.posCounter → ls.trailing = false → ls.st = .valuesDone →
      ∀ (G : P → Obs), RF c J (fun p => obs c (loop c similar (lsAfter ls occs) tail p)) G →
      RF c J (fun p => obs c (loop c similar ls (occs.flatMap Occ3.spell ++ tail) p))
           (fun q => runAtomsK c (occs.flatMap Occ3.atoms) ls.posCounter q (fun _ q' => G q')) := by
  intro occs
  induction occs with
  | nil =>
    intro ls _ _ _ G hG
    rw [lsAfter_nil] at hG
    simpa [runAtomsK] using hG
  | cons oc rest ih =>
    intro ls hok htr hst G hG
    cases oc with
    | pos v =>
      obtain ⟨hnsv, hv, ⟨a, hget, hsingle⟩, hok'⟩ := hok
      cases hget' : c.getPos ls.posCounter with
      | none => rw [hget] at hget'; cases hget'
      | some a' =>
        have : a = a' := by rw [hget] at hget'; cases hget'; rfl
        subst this
        obtain ⟨hfind, _⟩ := C01.getPos_spec wf hget
        rw [lsAfter_cons_pos] at hG
        have ih' := ih { ls with posCounter := ls.posCounter + 1, validArgFound := true } hok' htr hst G hG
        have hrf := RF.ofPend ih' .index a v hfind (hJocc a .index v hfind (Or.inr hsingle))
        intro p h0 hJp
        simp only [List.flatMap_cons, Occ3.spell, Occ3.atoms, List.singleton_append, List.cons_append, List.nil_append]
        rw [obs_pos_step c wf sp similar v hnsv a hsingle hv ls _ p htr hst hget]
        exact hrf.congr_rhs p h0 hJp _ (fun q _ => (runAtomsK_pos c _ a v _ _ q hget).symm)
    | long o =>
      obtain ⟨⟨⟨hns, hname, hne, hutf, a, hget, htv⟩, hsep⟩, hok'⟩ := hok
      simp only [SOcc.toL] at hns hname hne hutf hget htv
      obtain ⟨hfind, hidx⟩ := C01.findLong_spec wf hget
      rw [lsAfter_cons_long] at hG
      have ih' := ih { ls with validArgFound := true } hok' htr hst G hG
      intro p h0 hJp
      simp only [List.flatMap_cons, Occ3.spell, Occ3.atoms, List.singleton_append, List.append_assoc]
      have one : o.spell = [o.toL.spell] →
          obs c (loop c similar ls (o.spell ++ (rest.flatMap Occ3.spell ++ tail)) p) =
            match resolvePending c p with
            | (q, .ok ()) => runAtomsK c (.long o.name o.value :: rest.flatMap Occ3.atoms) ls.posCounter q (fun _ q' => G q')
            | (_, .error e) => .error e := by
        intro hsp
        rw [hsp, List.singleton_append, obs_long_step c similar o.toL hns a hname hne hutf hget htv ls _ p htr hst]
        exact (RF.ofReact ih' hJn (some .long) a o.value.toList).congr_rhs p h0 hJp _
          (fun q _ => (runAtomsK_long c _ o.name a o.value _ _ q hget).symm)
      cases hv : o.value with
      | none => rw [← hv]; exact one (by simp [SOcc.spell, hv])
      | some v =>
        cases hs : o.sep with
        | false => rw [← hv]; exact one (by simp [SOcc.spell, hv, hs])
        | true =>
          obtain ⟨hns1, hnsv, hvd, hnum, hreq, hterm⟩ := hsep hs v hv a hget
          have hsp : o.spell = [dash :: dash :: o.name, v] := by simp [SOcc.spell, hv, hs]
          rw [hsp]
          simp only [List.cons_append, List.nil_append]
          rw [obs_sep_step c wf similar o.name v hns1 hnsv a hname hne hutf hget (by rw [htv, hv]; rfl) hvd hnum hreq hterm
            ls _ p htr hst]
          exact (RF.ofPend ih' .long a v hfind (hJocc a .long v hfind (Or.inl hidx))).congr_rhs p h0 hJp _
            (fun q _ => (runAtomsK_long c _ o.name a (some v) _ _ q hget).symm)
    | cluster o =>
      obtain ⟨⟨hnst, hnonempty, hflags, hopt⟩, hok'⟩ := hok
      obtain ⟨fs, hfsm, hfs⟩ := zipArgs c o.flags hflags
      rw [lsAfter_cons_cluster] at hG
      have ih' := ih { ls with validArgFound := true } hok' htr hst G hG
      intro p h0 hJp
      simp only [List.flatMap_cons, Occ3.spell, Occ3.atoms, COcc.atoms, List.append_assoc]
      cases ho : o.opt with
      | none =>
        have hne : fs ≠ [] := by
          rcases hnonempty with h | h
          · intro hfs0; rw [hfs0] at hfsm; exact h hfsm.symm
          · rw [ho] at h; simp at h
        have hns : NoSubTok c (dash :: (fs.map (·.1)).flatten) := by
          apply hnst; simp [COcc.spell, ho, hfsm]
        simp only [COcc.spell, ho, List.singleton_append, List.append_nil, List.nil_append]
        rw [← hfsm, obs_flags_step c pp similar fs hns hfs hne ls _ p htr hst h0]
        exact (RF.ofFlags ih' hJn (fs.map (·.2))).congr_rhs p h0 hJp _
          (fun q _ => (runAtomsK_flags c _ fs hfs _ _ q).symm)
      | some x =>
        obtain ⟨ch, v, k⟩ := x
        obtain ⟨hch, hcd, a, hget, htv, hk⟩ := hopt ch v k ho
        obtain ⟨hfind, hidx⟩ := C01.getShort_spec wf hget
        -- the two one-token spellings share everything but the attached tail
        have attachedCase : ∀ (tl : Bytes), NoSubTok c (dash :: ((fs.map (·.1)).flatten ++ (ch ++ tl))) →
            (attachedOf tl).1 = some v → (a.requireEquals && !(attachedOf tl).2) = false →
            obs c (loop c similar ls ((dash :: ((fs.map (·.1)).flatten ++ (ch ++ tl))) :: (rest.flatMap Occ3.spell ++ tail)) p) =
              match resolvePending c p with
              | (q, .ok ()) => runAtomsK c ((fs.map (·.1)).map (fun ch => Atom.short ch none) ++
                  (Atom.short ch (some v) :: rest.flatMap Occ3.atoms)) ls.posCounter q (fun _ q' => G q')
              | (_, .error e) => .error e := by
          intro tl hns hat hreq
          rw [obs_opt_step c pp similar fs hfs ch a hch hcd hget htv tl v hns hat hreq ls _ p htr hst h0]
          refine (RF.ofFlags (RF.ofReact ih' hJn (some .short) a [v]) hJn (fs.map (·.2))).congr_rhs p h0 hJp _ ?_
          intro q _
          rw [runAtomsK_flags c _ fs hfs]
          simp only [runAtomsK_short c _ ch a (some v) _ _ _ hget, Option.toList_some]
        cases k with
        | attached =>
          obtain ⟨hvne, hveq, hreq⟩ := hk
          simp only [COcc.spell, ho, List.singleton_append, List.cons_append, List.nil_append]
          rw [← hfsm]
          exact attachedCase v (by apply hnst; simp [COcc.spell, ho, hfsm]) (by rw [attachedOf_plain v hvne hveq]) (by simp [hreq])
        | eq =>
          simp only [COcc.spell, ho, List.singleton_append, List.cons_append, List.nil_append]
          rw [← hfsm]
          exact attachedCase (Bytes.eq :: v) (by apply hnst; simp [COcc.spell, ho, hfsm]) (by rw [attachedOf_eq])
            (by rw [attachedOf_eq]; simp)
        | sep =>
          obtain ⟨hvd, hnum, hreq, hterm⟩ := hk
          have hns : NoSubTok c (dash :: ((fs.map (·.1)).flatten ++ ch)) := by apply hnst; simp [COcc.spell, ho, hfsm]
          have hnsv : NoSubTok c v := by apply hnst; simp [COcc.spell, ho]
          simp only [COcc.spell, ho, List.cons_append, List.nil_append]
          rw [← hfsm, obs_optsep_step c wf pp similar fs hfs ch a hch hcd hget htv v hns hnsv hvd hnum hreq hterm ls _ p htr hst h0]
          refine (RF.ofFlags (RF.ofPend ih' .short a v hfind (hJocc a .short v hfind (Or.inl hidx))) hJn (fs.map (·.2))).congr_rhs p h0 hJp _ ?_
          intro q _
          rw [runAtomsK_flags c _ fs hfs]
          simp only [runAtomsK_short c _ ch a (some v) _ _ _ hget, Option.toList_some]

/-- **attribution for long options, short clusters and positionals, any length** (C02): on a level whose positionals
are single-valued and take no hyphen values, a command line mixing long options (`--name=value`, `--name value`,
`--flag`, by name, alias or unambiguous prefix), short clusters (`-abc`, `-ovalue`, `-o=value`, `-o value`,
`-abovalue`, …) and positional values, none of them a subcommand name, is observed by the rest of the parser as
exactly the sequence of occurrences it spells: one `react` per flag character / option / positional value, on the
arg that owns the key (or whose turn it is), with exactly the value's bytes, in argv order - nothing invented,
dropped, duplicated or given to another arg -/
theorem loop_clusters (c : Cmd) (wf : C01.WF c) (sp : SimplePos c) (pp : PlainPos c) (similar : Bytes → Bytes → Bool)
    (occs : List Occ3) (ls : LoopSt) (p : P) (hok : okAll3 c occs ls.posCounter)
    (htr : ls.trailing = false) (hst : ls.st = .valuesDone) (hfss : p.flagSubSkip = 0) :
    obs c (loop c similar ls (occs.flatMap Occ3.spell) p) =
      match resolvePending c p with
      | (q, .ok ()) => obsA (runAtoms c (occs.flatMap Occ3.atoms) ls.posCounter q)
      | (_, .error e) => .error e := by
  have hend : RF c (fun _ => True) (fun p => obs c (loop c similar (lsAfter ls occs) [] p)) (fun q => .ok (q, .done)) := by
    intro p' _ _
    simp only [loop, obs]
    cases resolvePending c p' with
    | mk q r => cases r <;> rfl
  have := loop_clusters_then c wf sp pp similar [] (fun _ => True) trivial (fun _ _ _ _ _ => trivial) occs ls hok htr hst _ hend p hfss trivial
  simp only [List.append_nil] at this
  rw [this]
  cases resolvePending c p with
  | mk q r =>
    cases r with
    | error e => rfl
    | ok u => exact runAtomsK_done c _ _ q

/-- **... and then the subcommand** (C02 / C09): when the occurrences are followed by a token that names a subcommand
of the level (by name, alias or unambiguous prefix; not the generated `help`), the loop ends there: the occurrences
are attributed as above, and the hand-over carries exactly the subcommand found and the untouched rest of argv -/
theorem loop_then_subcommand (c : Cmd) (wf : C01.WF c) (sp : SimplePos c) (pp : PlainPos c) (similar : Bytes → Bytes → Bool)
    (occs : List Occ3) (ls : LoopSt) (p : P) (name sc : Bytes) (rest : List Bytes) (hok : okAll3 c occs ls.posCounter)
    (htr : ls.trailing = false) (hst : ls.st = .valuesDone) (hfss : p.flagSubSkip = 0)
    (hsub : possibleSubcommand c name (ls.validArgFound || !occs.isEmpty) = some sc)
    (hnh : (sc == Build.b_help && !c.settings.disableHelpSubcommand) = false) :
    obs c (loop c similar ls (occs.flatMap Occ3.spell ++ name :: rest) p) =
      match resolvePending c p with
      | (q, .ok ()) => runAtomsK c (occs.flatMap Occ3.atoms) ls.posCounter q
          (fun _ q' => .ok (q', .sub sc rest false (ls.validArgFound || !occs.isEmpty)))
      | (_, .error e) => .error e := by
  have hend : RF c (fun _ => True) (fun p => obs c (loop c similar (lsAfter ls occs) (name :: rest) p))
      (fun q => .ok (q, .sub sc rest false (ls.validArgFound || !occs.isEmpty))) := by
    intro p' _ _
    have h1 : (lsAfter ls occs).trailing = false := htr
    have h2 : (lsAfter ls occs).st = .valuesDone := hst
    have h3 : (lsAfter ls occs).validArgFound = (ls.validArgFound || !occs.isEmpty) := rfl
    generalize lsAfter ls occs = ls' at h1 h2 h3
    show obs c (loop c similar ls' (name :: rest) p') = _
    rw [loop]
    simp only [h1, Bool.false_eq_true, ↓reduceIte, h2, BEq.rfl, Bool.or_true, h3, hsub, hnh, obs]
    cases resolvePending c p' with
    | mk q r => cases r <;> rfl
  exact loop_clusters_then c wf sp pp similar (name :: rest) (fun _ => True) trivial (fun _ _ _ _ _ => trivial) occs ls hok htr hst _ hend p hfss trivial

/-- the way a key was written (short or long) does not matter to `react` -/
theorem react_short_long (c : Cmd) (s : Source) (a : Arg) (vals : List Bytes) (t : Option Nat) (p : P) :
    react c (some .short) s a vals t p = react c (some .long) s a vals t p := by
  have hb : ∀ q, bumpIdx s (some .short) q = bumpIdx s (some .long) q := by intro q; simp [bumpIdx]
  unfold Parser.react reactCore
  simp only [hb]

/-- what an atom means: the arg its key names (positionals: the one whose turn it is) and the values -/
def Atom.meaning (c : Cmd) : Atom → Option Arg × Bool × List Bytes
  | .long n v => (findLong c n, false, v.toList)
  | .short ch v => (c.getShort ch, false, v.toList)
  | .pos v => (none, true, [v])

theorem runAtoms_congr (c : Cmd) : ∀ (l l' : List Atom), l.map (Atom.meaning c) = l'.map (Atom.meaning c) →
    ∀ pc p, runAtoms c l pc p = runAtoms c l' pc p
  | [], [], _, _, _ => rfl
  | [], _ :: _, h, _, _ => by simp at h
  | _ :: _, [], h, _, _ => by simp at h
  | x :: l, y :: l', h, pc, p => by
    simp only [List.map_cons, List.cons.injEq] at h
    obtain ⟨hxy, hl⟩ := h
    have ih := runAtoms_congr c l l' hl
    cases x <;> cases y <;> simp only [Atom.meaning, Prod.mk.injEq, Bool.false_eq_true, Bool.true_eq_false, and_false, false_and] at hxy
    all_goals (obtain ⟨h1, h2⟩ := hxy)
    all_goals (conv => lhs; unfold runAtoms)
    all_goals (conv => rhs; unfold runAtoms)
    · rw [h1, h2.2]
      cases findLong c _ with
      | none => rfl
      | some a =>
        simp only
        cases react c (some .long) .cmdline a _ none p with
        | mk p1 r => cases r with | error e => rfl | ok x => exact ih _ _
    · rw [h1, h2.2]
      cases c.getShort _ with
      | none => rfl
      | some a =>
        simp only
        rw [react_short_long]
        cases react c (some .long) .cmdline a _ none p with
        | mk p1 r => cases r with | error e => rfl | ok x => exact ih _ _
    · rw [h1, h2.2]
      cases findLong c _ with
      | none => rfl
      | some a =>
        simp only
        rw [react_short_long]
        cases react c (some .long) .cmdline a _ none p with
        | mk p1 r => cases r with | error e => rfl | ok x => exact ih _ _
    · rw [h1, h2.2]
      cases c.getShort _ with
      | none => rfl
      | some a =>
        simp only
        cases react c (some .short) .cmdline a _ none p with
        | mk p1 r => cases r with | error e => rfl | ok x => exact ih _ _
    · simp only [List.cons.injEq, and_true] at h2
      rw [h2.2]
      cases c.getPos pc with
      | none => rfl
      | some a =>
        simp only
        cases react c (some .index) .cmdline a _ none p with
        | mk p1 r => cases r with | error e => rfl | ok x => exact ih _ _

/-- **equivalent spellings** (C08, whole command lines): two command lines over long options, short clusters and
positional values that spell the same occurrences - differing in `--opt=v` vs `--opt v`, `-ov` vs `-o v` vs `-o=v`,
a cluster `-abc` vs separate `-a -b -c`, an alias or unambiguous prefix vs the canonical name, the short vs the long
name of the same arg - are observed identically: the same matches-in-progress or the same error -/
theorem spellings_equivalent_all (c : Cmd) (wf : C01.WF c) (sp : SimplePos c) (pp : PlainPos c)
    (similar : Bytes → Bytes → Bool) (occs occs' : List Occ3) (ls : LoopSt) (p : P)
    (hok : okAll3 c occs ls.posCounter) (hok' : okAll3 c occs' ls.posCounter)
    (hsame : (occs.flatMap Occ3.atoms).map (Atom.meaning c) = (occs'.flatMap Occ3.atoms).map (Atom.meaning c))
    (htr : ls.trailing = false) (hst : ls.st = .valuesDone) (hfss : p.flagSubSkip = 0) :
    obs c (loop c similar ls (occs.flatMap Occ3.spell) p) = obs c (loop c similar ls (occs'.flatMap Occ3.spell) p) := by
  rw [loop_clusters c wf sp pp similar occs ls p hok htr hst hfss,
    loop_clusters c wf sp pp similar occs' ls p hok' htr hst hfss]
  have := runAtoms_congr c _ _ hsame
  cases resolvePending c p with
  | mk q r => cases r <;> simp [this]

/-- the hypotheses are met by `prog -ab -o=v x` vs `prog -a -b --out v x` on a command with flags `-a`, `-b`, an
option `-o` / `--out` and a positional: both lines are admissible and spell the same occurrences -/
example :
    let fa : Arg := { id := [97], short := some [97], action := some .setTrue, numVals := some ⟨0, some 0⟩ }
    let fb : Arg := { id := [98], short := some [98], action := some .count, numVals := some ⟨0, some 0⟩ }
    let oo : Arg := { id := [111], short := some [111], long := some [111, 117, 116] }
    let c : Cmd := .mk [112] [] none none [] [] {} [fa, fb, oo, { id := [120], index := some 1 }] [] []
    let l1 : List Occ3 := [.cluster ⟨[[97], [98]], none⟩, .cluster ⟨[], some ([111], [118], .eq)⟩, .pos [120]]
    let l2 : List Occ3 := [.cluster ⟨[[97]], none⟩, .cluster ⟨[[98]], none⟩, .long ⟨[111, 117, 116], some [118], true⟩, .pos [120]]
    c.subs = [] ∧ okAll3 c l1 1 ∧ okAll3 c l2 1 ∧
      (l1.flatMap Occ3.atoms).map (Atom.meaning c) = (l2.flatMap Occ3.atoms).map (Atom.meaning c) ∧
      l1.flatMap Occ3.spell = [[45, 97, 98], [45, 111, 61, 118], [120]] ∧
      l2.flatMap Occ3.spell = [[45, 97], [45, 98], [45, 45, 111, 117, 116], [118], [120]] := by
  intro fa fb oo c l1 l2
  have hA : c.getShort [97] = some fa := by decide
  have hB : c.getShort [98] = some fb := by decide
  have hO : c.getShort [111] = some oo := by decide
  have hL : findLong c [111, 117, 116] = some oo := by decide
  have flagsOk : ∀ ch ∈ [[97], [98]], Utf8.IsChar ch ∧ Bytes.startsWith ch [dash] = false ∧
      ∃ a, c.getShort ch = some a ∧ a.takesValue = false := by
    intro ch hch
    simp at hch
    rcases hch with rfl | rfl
    · exact ⟨by decide, by decide, fa, hA, by decide⟩
    · exact ⟨by decide, by decide, fb, hB, by decide⟩
  have noOpt : ∀ (fl : List Bytes) (ch v : Bytes) (k : Attach), (⟨fl, none⟩ : COcc).opt = some (ch, v, k) → False := by
    intro fl ch v k h; cases h
  have ns : ∀ tok, NoSubTok c tok := noSubTok_of_no_subs c rfl
  have ok1 : okAll3 c l1 1 := by
    refine ⟨⟨fun tok _ => ns tok, Or.inl (by decide), flagsOk, fun ch v k h => (noOpt _ ch v k h).elim⟩,
      ⟨fun tok _ => ns tok, Or.inr rfl, ?_, ?_⟩, ns _, by decide, ⟨_, rfl, by decide⟩, trivial⟩
    · intro ch hch; cases hch
    · intro ch v k h
      have h' : ([111], [118], Attach.eq) = (ch, v, k) := Option.some.inj h
      cases h'
      exact ⟨by decide, by decide, oo, hO, by decide, trivial⟩
  have ok2 : okAll3 c l2 1 := by
    refine ⟨⟨fun tok _ => ns tok, Or.inl (by decide), fun ch hch => flagsOk ch ?_, fun ch v k h => (noOpt _ ch v k h).elim⟩,
      ⟨fun tok _ => ns tok, Or.inl (by decide), fun ch hch => flagsOk ch ?_, fun ch v k h => (noOpt _ ch v k h).elim⟩,
      ⟨⟨ns _, by decide, by decide, by decide, oo, hL, by decide⟩, ?_⟩, ns _, by decide, ⟨_, rfl, by decide⟩, trivial⟩
    · simp at hch; simp [hch]
    · simp at hch; simp [hch]
    · intro _ v hv a ha
      have hv' : [118] = v := Option.some.inj hv
      subst hv'
      have ha' : oo = a := Option.some.inj (hL.symm.trans ha)
      subst ha'
      exact ⟨ns _, ns _, by decide, by decide, by decide, by decide⟩
  refine ⟨rfl, ok1, ok2, ?_, by decide, by decide⟩
  · simp only [l1, l2, List.flatMap_cons, List.flatMap_nil, Occ3.atoms, COcc.atoms, List.map_cons, List.map_nil,
      List.append_nil, List.nil_append, List.cons_append, Atom.meaning, hA, hB, hO, hL]

/-- a token that starts with `-` is never taken for a subcommand when no subcommand name or alias starts with `-` -/
theorem noSubTok_of_dash (c : Cmd)
    (hsubs : ∀ s ∈ c.subs, Bytes.startsWith s.name [dash] = false ∧ ∀ al ∈ s.aliases, Bytes.startsWith al [dash] = false)
    (tok : Bytes) (ht : Bytes.startsWith tok [dash] = true) : NoSubTok c tok := by
  -- nothing that does not start with `-` has `tok` as a prefix or equals it
  have key : ∀ n : Bytes, Bytes.startsWith n [dash] = false → Bytes.startsWith n tok = false ∧ (n == tok) = false := by
    intro n hn
    obtain ⟨t, rfl⟩ := (startsWith_iff tok [dash]).1 ht
    constructor
    · apply Bool.eq_false_iff.2
      intro h
      obtain ⟨t', rfl⟩ := (startsWith_iff n ([dash] ++ t)).1 h
      simp [Bytes.startsWith] at hn
    · apply Bool.eq_false_iff.2
      intro h
      have : n = [dash] ++ t := by simpa using h
      subst this
      simp [Bytes.startsWith] at hn
  intro vaf
  unfold possibleSubcommand
  split
  · rfl
  · split
    · rfl
    · have hfind : c.findSubcommand tok = none := by
        unfold Cmd.findSubcommand
        apply List.find?_eq_none.2
        intro s hs
        obtain ⟨h1, h2⟩ := hsubs s hs
        simp only [Cmd.aliasesTo, Bool.or_eq_true, not_or]
        refine ⟨by simp [(key s.name h1).2], ?_⟩
        intro hc
        rw [List.contains_iff_mem] at hc
        have := (key tok (h2 tok hc)).2
        simp at this
      have hinf : (c.subs.filterMap fun s =>
          if Bytes.startsWith s.name tok then some s.name
          else (s.aliases.find? fun al => Bytes.startsWith al tok)) = [] := by
        apply List.filterMap_eq_nil_iff.2
        intro s hs
        obtain ⟨h1, h2⟩ := hsubs s hs
        simp only [(key s.name h1).1, Bool.false_eq_true, ↓reduceIte]
        apply List.find?_eq_none.2
        intro al hal
        simp [(key al (h2 al hal)).1]
      simp only [hinf, hfind]
      split
      · next heq => split at heq <;> simp at heq
      · simp

/-- the hypotheses of `loop_then_subcommand` are met by `prog -a x sub --rest` on a command with a flag `-a`, a
positional and a subcommand `sub`: the occurrences are `-a` and `x`, the subcommand gets `--rest` untouched -/
example :
    let fa : Arg := { id := [97], short := some [97], action := some .setTrue, numVals := some ⟨0, some 0⟩ }
    let sub : Cmd := .mk [115, 117, 98] [] none none [] [] {} [] [] []
    let c : Cmd := .mk [112] [] none none [] [] {} [fa, { id := [120], index := some 1 }] [] [sub]
    let occs : List Occ3 := [.cluster ⟨[[97]], none⟩, .pos [120]]
    okAll3 c occs 1 ∧ possibleSubcommand c [115, 117, 98] (false || !occs.isEmpty) = some [115, 117, 98] ∧
      ([115, 117, 98] == Build.b_help && !c.settings.disableHelpSubcommand) = false ∧
      occs.flatMap Occ3.spell ++ [115, 117, 98] :: [[45, 45, 114]] = [[45, 97], [120], [115, 117, 98], [45, 45, 114]] := by
  intro fa sub c occs
  have hd : ∀ s ∈ c.subs, Bytes.startsWith s.name [dash] = false ∧ ∀ al ∈ s.aliases, Bytes.startsWith al [dash] = false := by
    intro s hs
    have : s = sub := by simpa [c, Cmd.subs] using hs
    subst this
    exact ⟨by decide, by intro al hal; cases hal⟩
  refine ⟨⟨⟨?_, Or.inl (by decide), ?_, by intro ch v k h; cases h⟩, ?_, by decide, ⟨_, rfl, by decide⟩, trivial⟩, by decide, by decide, by decide⟩
  · intro tok htok
    have : tok = [dash, 97] := by simpa [COcc.spell] using htok
    subst this
    exact noSubTok_of_dash c hd _ (by decide)
  · intro ch hch
    have : ch = [97] := by simpa using hch
    subst this
    exact ⟨by decide, by decide, fa, by decide, by decide⟩
  · intro vaf; cases vaf <;> decide

end Clap.C02
