/-
C02 — Every argv token is attributed exactly once.
The index discipline: every index handed out is fresh (greater than every index
in the matcher), so reported indices are unique and strictly increase in the
order in which values are stored; the pending buffer never exceeds the value
range; delimiter splitting is lossless.
-/
import ClapModel
import ClapProofs.C07
import ClapProofs.C14
namespace Clap.C02
open Clap Parser C07

def keys (m : ArgMap) : List Id := m.map Prod.fst
def allIdx (m : ArgMap) : List Nat := m.flatMap fun p => p.2.indices

/-- keys are unique, indices are unique across the whole matcher, and none exceeds `cur_idx` -/
structure Inv (p : P) : Prop where
  keysNodup : (keys p.args).Nodup
  idxNodup : (allIdx p.args).Nodup
  idxLe : ∀ i ∈ allIdx p.args, i ≤ p.curIdx

/-! #### removal -/

theorem remove_sublist (id : Id) : ∀ m : ArgMap, (ArgMap.remove id m).Sublist m
  | [] => by simp [ArgMap.remove]
  | q :: qs => by
    unfold ArgMap.remove
    split
    · exact List.sublist_cons_self q qs
    · exact (remove_sublist id qs).cons_cons q

theorem keys_sublist {m m' : ArgMap} (h : m'.Sublist m) : (keys m').Sublist (keys m) := h.map _
theorem allIdx_sublist {m m' : ArgMap} (h : m'.Sublist m) : (allIdx m').Sublist (allIdx m) := by
  induction h with
  | slnil => exact List.Sublist.refl _
  | cons a _ ih => simp only [allIdx, List.flatMap_cons] at ih ⊢; exact ih.trans (List.sublist_append_right _ _)
  | cons_cons a _ ih => simp only [allIdx, List.flatMap_cons] at ih ⊢; exact List.Sublist.append (List.Sublist.refl _) ih

theorem foldl_remove_sublist (ids : List Id) : ∀ m : ArgMap, (ids.foldl (fun acc o => ArgMap.remove o acc) m).Sublist m := by
  induction ids with
  | nil => intro m; exact List.Sublist.refl m
  | cons o os ih => intro m; exact (ih _).trans (remove_sublist o m)

theorem dropEmptyGroups_sublist (c : Cmd) (id : Id) (m : ArgMap) : (dropEmptyGroups c id m).Sublist m := by
  unfold dropEmptyGroups
  generalize c.groupsForArg id = gs
  induction gs generalizing m with
  | nil => exact List.Sublist.refl m
  | cons g gs ih =>
    simp only [List.foldl_cons]
    split
    · exact ih m
    · exact (ih _).trans (remove_sublist g m)

theorem removeOverridden_sublist (c : Cmd) (m : ArgMap) (o : Id) : (removeOverridden c m o).Sublist m := by
  unfold removeOverridden
  split
  · exact (dropEmptyGroups_sublist c o _).trans (remove_sublist o m)
  · exact List.Sublist.refl m

theorem foldl_removeOverridden_sublist (c : Cmd) (ids : List Id) : ∀ m : ArgMap, (ids.foldl (removeOverridden c) m).Sublist m := by
  induction ids with
  | nil => intro m; exact List.Sublist.refl m
  | cons o os ih => intro m; exact (ih _).trans (removeOverridden_sublist c m o)

theorem removeOverrides_sublist (c : Cmd) (a : Arg) (m : ArgMap) : (removeOverrides c a m).Sublist m := by
  unfold removeOverrides
  exact (foldl_removeOverridden_sublist c _ _).trans (foldl_removeOverridden_sublist c _ _)

/-- dropping entries keeps the invariant -/
theorem inv_of_sublist {p : P} {m' : ArgMap} (h : Inv p) (hs : m'.Sublist p.args) : Inv { p with args := m' } :=
  ⟨(keys_sublist hs).nodup h.keysNodup, (allIdx_sublist hs).nodup h.idxNodup,
   fun i hi => h.idxLe i ((allIdx_sublist hs).subset hi)⟩

/-! #### updates that keep the indices -/

theorem update_noop (m : ArgMap) (g : Id) (f : MatchedArg → MatchedArg) (h : g ∉ keys m) : m.update g f = m := by
  induction m with
  | nil => rfl
  | cons q qs ih =>
    unfold ArgMap.update
    simp only [keys, List.map_cons, List.mem_cons, not_or] at h
    have hq : (q.1 == g) = false := by
      cases hh : q.1 == g with
      | false => rfl
      | true => exact absurd (by simpa using hh : q.1 = g).symm h.1
    simp only [List.map_cons, hq, Bool.false_eq_true, ↓reduceIte]
    congr 1
    exact ih h.2

/-- rewriting the entry of `g` to something with the same indices leaves `allIdx` alone -/
theorem allIdx_update_same (m : ArgMap) (g : Id) (f : MatchedArg → MatchedArg)
    (hf : ∀ ma, m.get g = some ma → (f ma).indices = ma.indices) (hk : (keys m).Nodup) :
    allIdx (m.update g f) = allIdx m := by
  induction m with
  | nil => rfl
  | cons q qs ih =>
    simp only [keys, List.map_cons, List.nodup_cons] at hk
    by_cases hq : (q.1 == g) = true
    · have hqg : q.1 = g := by simpa using hq
      have hnot : g ∉ keys qs := by rw [← hqg]; exact hk.1
      have hget : ArgMap.get (q :: qs) g = some q.2 := by simp [ArgMap.get, List.find?_cons, hq]
      have := hf q.2 hget
      unfold ArgMap.update at *
      simp only [List.map_cons, hq, ↓reduceIte, allIdx, List.flatMap_cons, this]
      congr 1
      have hno := update_noop qs g f hnot
      unfold ArgMap.update at hno
      rw [hno]
    · have hq' : (q.1 == g) = false := by simpa using hq
      have ih' := ih (fun ma hma => hf ma (by simpa [ArgMap.get, List.find?_cons, hq'] using hma)) hk.2
      unfold ArgMap.update at *
      simp only [List.map_cons, hq', Bool.false_eq_true, ↓reduceIte, allIdx, List.flatMap_cons]
      congr 1

/-- giving the entry of `g` one more index `k` adds exactly `k` to `allIdx` (up to order) -/
theorem allIdx_update_push (m : ArgMap) (g : Id) (mg ma' : MatchedArg) (k : Nat)
    (hget : m.get g = some mg) (hidx : ma'.indices = mg.indices ++ [k]) (hk : (keys m).Nodup) :
    (allIdx (m.update g fun _ => ma')).Perm (k :: allIdx m) := by
  induction m with
  | nil => simp [ArgMap.get] at hget
  | cons q qs ih =>
    simp only [keys, List.map_cons, List.nodup_cons] at hk
    by_cases hq : (q.1 == g) = true
    · have hqg : q.1 = g := by simpa using hq
      have hnot : g ∉ keys qs := by rw [← hqg]; exact hk.1
      have hq2 : q.2 = mg := by simpa [ArgMap.get, List.find?_cons, hq] using hget
      have hno := update_noop qs g (fun _ => ma') hnot
      unfold ArgMap.update at hno ⊢
      simp only [List.map_cons, hq, ↓reduceIte, allIdx, List.flatMap_cons, hidx, hno, hq2]
      -- (mg.indices ++ [k]) ++ rest ~ k :: (mg.indices ++ rest)
      rw [List.append_assoc]
      exact List.perm_middle
    · have hq' : (q.1 == g) = false := by simpa using hq
      have ih' := ih (by simpa [ArgMap.get, List.find?_cons, hq'] using hget) hk.2
      unfold ArgMap.update at ih' ⊢
      simp only [List.map_cons, hq', Bool.false_eq_true, ↓reduceIte, allIdx, List.flatMap_cons]
      exact (List.Perm.append_left _ ih').trans List.perm_middle

theorem keys_update_eq (m : ArgMap) (g : Id) (f : MatchedArg → MatchedArg) : keys (m.update g f) = keys m :=
  C07.keys_update m g f

/-! #### `start_custom_arg` keeps the invariant and hands out no index -/

theorem keys_append_nodup (m : ArgMap) (id : Id) (v : MatchedArg) (h : m.contains id = false) (hk : (keys m).Nodup) :
    (keys (m ++ [(id, v)])).Nodup := by
  simp only [keys, List.map_append, List.map_cons, List.map_nil]
  rw [List.nodup_append]
  refine ⟨hk, by simp, ?_⟩
  intro x hx y hy
  simp at hy; subst hy
  intro hxy; subst hxy
  -- `x` is a key of `m`, contradicting `contains = false`
  have : m.contains x = true := by
    simp only [List.mem_map] at hx
    obtain ⟨q, hq, rfl⟩ := hx
    simp only [ArgMap.contains, List.any_eq_true]
    exact ⟨q, hq, by simp⟩
  rw [h] at this; simp at this

theorem matcherStart_inv (m : ArgMap) (id : Id) (fresh : MatchedArg) (s : Source) (hfresh : fresh.indices = [])
    (hk : (keys m).Nodup) :
    (keys (matcherStart m id fresh s)).Nodup ∧ allIdx (matcherStart m id fresh s) = allIdx m := by
  unfold matcherStart
  by_cases hc : m.contains id = true
  · simp only [hc, ↓reduceIte, keys_update_eq]
    exact ⟨hk, allIdx_update_same m id _ (fun ma _ => rfl) hk⟩
  · have hc' : m.contains id = false := by simpa using hc
    simp only [hc', Bool.false_eq_true, ↓reduceIte, keys_update_eq]
    refine ⟨keys_append_nodup m id fresh hc' hk, ?_⟩
    have := allIdx_update_same (m ++ [(id, fresh)]) id (fun ma => (ma.setSource s).newValGroup) (fun ma _ => rfl)
      (keys_append_nodup m id fresh hc' hk)
    rw [this]
    simp [allIdx, hfresh]

theorem groupFold_inv (a : Arg) (s : Source) : ∀ (gs : List Id) (acc : ArgMap × Bool), (keys acc.1).Nodup →
    (keys (gs.foldl (groupStep a s) acc).1).Nodup ∧ allIdx (gs.foldl (groupStep a s) acc).1 = allIdx acc.1 := by
  intro gs
  induction gs with
  | nil => intro acc hk; exact ⟨hk, rfl⟩
  | cons g gs ih =>
    intro acc hk
    simp only [List.foldl_cons]
    obtain ⟨s1, s2⟩ := matcherStart_inv acc.1 g { isGroup := true } s rfl hk
    have hstep : (keys (groupStep a s acc g).1).Nodup ∧ allIdx (groupStep a s acc g).1 = allIdx acc.1 := by
      unfold groupStep
      simp only
      split
      · next ma' hma' =>
        simp only [keys_update_eq]
        refine ⟨s1, ?_⟩
        rw [← s2]
        apply allIdx_update_same _ _ _ _ s1
        intro mg hmg
        -- `ma'` is `mg` with one more raw value
        simp only [hmg, Option.bind_some] at hma'
        unfold MatchedArg.appendVal at hma'
        split at hma'
        · simp at hma'
        · simp at hma'; rw [← hma']
      · exact ⟨s1, s2⟩
    obtain ⟨i1, i2⟩ := ih _ hstep.1
    exact ⟨i1, by rw [i2, hstep.2]⟩

theorem startCustomArg_inv (c : Cmd) (a : Arg) (s : Source) (p : P) (h : Inv p) :
    Inv (startCustomArg c a s p).1 ∧ (startCustomArg c a s p).1.curIdx = p.curIdx := by
  have h0 : Inv { p with args := (if s == .cmdline then removeOverrides c a p.args else p.args) } := by
    split
    · exact inv_of_sublist h (removeOverrides_sublist c a p.args)
    · exact h
  unfold startCustomArg
  simp only
  generalize (if (s == Source.cmdline) = true then removeOverrides c a p.args else p.args) = m0 at h0 ⊢
  obtain ⟨m1, m2⟩ := matcherStart_inv m0 a.id { ignoreCase := a.ignoreCase } s rfl h0.keysNodup
  split
  · exact ⟨⟨m1, by rw [m2]; exact h0.idxNodup, fun i hi => h0.idxLe i (by rw [← m2]; exact hi)⟩, rfl⟩
  · obtain ⟨g1, g2⟩ := groupFold_inv a s (c.groupsForArg a.id)
      (matcherStart m0 a.id { ignoreCase := a.ignoreCase } s, true) m1
    split
    · exact ⟨⟨g1, by rw [g2, m2]; exact h0.idxNodup, fun i hi => h0.idxLe i (by rw [← m2, ← g2]; exact hi)⟩, rfl⟩
    · exact ⟨⟨g1, by rw [g2, m2]; exact h0.idxNodup, fun i hi => h0.idxLe i (by rw [← m2, ← g2]; exact hi)⟩, rfl⟩

/-! #### `push_arg_values`: every stored value gets the next index -/

/-- **indices are fresh**: each value pushed receives `cur_idx + 1`, which is larger
than every index already in the matcher; the invariant is kept and `cur_idx`
advances by the number of values processed -/
theorem pushArgValues_inv (a : Arg) : ∀ (vals : List Bytes) (p : P), Inv p →
    Inv (pushArgValues a vals p).1 ∧ p.curIdx ≤ (pushArgValues a vals p).1.curIdx ∧
    (∀ i ∈ allIdx (pushArgValues a vals p).1.args, i ∈ allIdx p.args ∨ p.curIdx < i)
  | [], p, h => by simp only [pushArgValues]; exact ⟨h, Nat.le_refl _, fun i hi => Or.inl hi⟩
  | raw :: rest, p, h => by
    unfold pushArgValues
    simp only
    have h1 : Inv { p with curIdx := p.curIdx + 1 } := ⟨h.keysNodup, h.idxNodup, fun i hi => Nat.le_succ_of_le (h.idxLe i hi)⟩
    split
    · exact ⟨h1, Nat.le_succ _, fun i hi => Or.inl hi⟩
    · cases hg : ({ p with curIdx := p.curIdx + 1 } : P).args.get a.id with
      | none => simp only [Option.bind_none]; exact ⟨h1, Nat.le_succ _, fun i hi => Or.inl hi⟩
      | some mg =>
        simp only [Option.bind_some]
        cases hap : mg.appendVal raw with
        | none => simp only; exact ⟨h1, Nat.le_succ _, fun i hi => Or.inl hi⟩
        | some ma' =>
          simp only
          have hidx : ma'.indices = mg.indices := by
            unfold MatchedArg.appendVal at hap
            split at hap
            · simp at hap
            · simp at hap; rw [← hap]
          have hperm := allIdx_update_push p.args a.id mg (ma'.pushIndex (p.curIdx + 1)) (p.curIdx + 1) hg
            (by simp [MatchedArg.pushIndex, hidx]) h.keysNodup
          -- the new state satisfies the invariant
          have hnew : p.curIdx + 1 ∉ allIdx p.args := fun hin => by have := h.idxLe _ hin; omega
          have h2 : Inv { p with curIdx := p.curIdx + 1, args := p.args.update a.id fun _ => ma'.pushIndex (p.curIdx + 1) } :=
            ⟨by simp only [keys_update_eq]; exact h.keysNodup,
             hperm.nodup_iff.2 (List.nodup_cons.2 ⟨hnew, h.idxNodup⟩),
             fun i hi => by
               have := hperm.subset hi
               rcases List.mem_cons.1 this with rfl | hin
               · exact Nat.le_refl _
               · exact Nat.le_succ_of_le (h.idxLe i hin)⟩
          obtain ⟨r1, r2, r3⟩ := pushArgValues_inv a rest _ h2
          refine ⟨r1, by simp only at r2; omega, fun i hi => ?_⟩
          rcases r3 i hi with hin | hgt
          · have := hperm.subset hin
            rcases List.mem_cons.1 this with rfl | hin'
            · right; omega
            · left; exact hin'
          · right; simp only at hgt; omega

/-- the whole reaction to an occurrence keeps the index invariant -/
theorem reactFinish_inv (c : Cmd) (a : Arg) (s : Source) (p : P) (vals : List Bytes) (h : Inv p) :
    Inv (reactFinish c a s p vals).1 ∧ p.curIdx ≤ (reactFinish c a s p vals).1.curIdx := by
  obtain ⟨s1, s2⟩ := startCustomArg_inv c a s p h
  unfold reactFinish
  cases hs : startCustomArg c a s p with
  | mk p1 r =>
    rw [hs] at s1 s2
    simp only at s1 s2
    cases r with
    | error e => simp only; exact ⟨s1, by omega⟩
    | ok u =>
      simp only
      obtain ⟨q1, q2, _⟩ := pushArgValues_inv a vals p1 s1
      cases hp : pushArgValues a vals p1 with
      | mk p2 r2 =>
        rw [hp] at q1 q2
        simp only at q1 q2
        cases r2 <;> (simp only; exact ⟨q1, by omega⟩)

theorem reactCore_inv (c : Cmd) (ident : Option Ident) (s : Source) (a : Arg) (vals : List Bytes) (t : Option Nat)
    (p : P) (h : Inv p) : Inv (reactCore c ident s a vals t p).1 ∧ p.curIdx ≤ (reactCore c ident s a vals t p).1.curIdx := by
  have hb : Inv (bumpIdx s ident p) ∧ p.curIdx ≤ (bumpIdx s ident p).curIdx := by
    unfold bumpIdx
    split
    · exact ⟨⟨h.keysNodup, h.idxNodup, fun i hi => Nat.le_succ_of_le (h.idxLe i hi)⟩, Nat.le_succ _⟩
    · exact ⟨h, Nat.le_refl _⟩
  have rep : ∀ (p : P) (vs : List Bytes), Inv p → Inv (reactReplace c a s p vs).1 ∧ p.curIdx ≤ (reactReplace c a s p vs).1.curIdx := by
    intro p vs hp
    unfold reactReplace
    simp only
    have hr : Inv { p with args := ArgMap.remove a.id p.args } := inv_of_sublist hp (remove_sublist _ _)
    split
    · exact ⟨hr, Nat.le_refl _⟩
    · exact reactFinish_inv c a s _ vs hr
  unfold reactCore
  split
  · exact ⟨h, Nat.le_refl _⟩
  · simp only
    split
    · obtain ⟨r1, r2⟩ := rep _ _ hb.1; exact ⟨r1, by omega⟩
    · obtain ⟨r1, r2⟩ := reactFinish_inv c a s _ _ hb.1; exact ⟨r1, by omega⟩
    · exact rep _ _ h
    · exact rep _ _ h
    · exact reactFinish_inv c a s _ _ (inv_of_sublist h (remove_sublist _ _))
    all_goals exact ⟨h, Nat.le_refl _⟩

/-- the empty matcher satisfies the invariant -/
theorem inv_init : Inv {} := ⟨by simp [keys], by simp [allIdx], by simp [allIdx]⟩

/-! #### the pending buffer is bounded by the value range -/

/-- an option keeps asking for values only while fewer than `num_args.max` are pending -/
theorem pending_bounded (p : P) (a : Arg) (pd : Pending) (hp : p.pending = some pd) (hid : pd.id = a.id)
    (mx : Nat) (hmax : a.getNumArgs.max = some mx) : needsMoreVals p a = true ↔ pd.rawVals.length < mx := by
  unfold needsMoreVals Range.acceptsMore
  simp [hp, hid, hmax]

/-! #### delimiter splitting is lossless -/

/-- joining the pieces with the delimiter gives back the raw value -/
theorem delimiter_lossless (v d : Bytes) (hd : d ≠ []) :
    ∃ ps, OsStrExt.split v d = some ps ∧ C14.join d ps = v :=
  let ⟨ps, h1, h2, _⟩ := (C14.split_spec v d).2 hd
  ⟨ps, h1, h2⟩

/-- no delimiter declared: values are stored untouched -/
theorem no_delimiter_no_split (c : Cmd) (a : Arg) (vals : List Bytes) (t : Option Nat) (h : a.delim = none) :
    splitDelim c a vals t = vals := by
  simp [splitDelim, h]

end Clap.C02
