/-
C08 — Equivalent spellings of the same invocation parse to identical matches.
Token-level facts that make the spellings equivalent: `=`-attached and separate
values lex to the same (name, value); aliases are first-class keys; an exact
name beats inference; an ambiguous prefix resolves to nothing.
-/
import ClapModel
import ClapProofs.C13
namespace Clap.C08
open Clap Parser Bytes

/-! #### `--name=v` and `--name` + `v` name the same flag and carry the same value -/

theorem toLong_attached (name v : Bytes) (hname : Bytes.eq ∉ name) (hne : name ≠ []) :
    ParsedArg.toLong (dash :: dash :: name ++ Bytes.eq :: v) = some (name, Utf8.valid name, some v) := by
  -- by the reassembly theorem of C13, whatever `to_long` returns decomposes the argument
  cases h : ParsedArg.toLong (dash :: dash :: name ++ Bytes.eq :: v) with
  | none =>
    have := C13.isLong_iff_toLong (dash :: dash :: name ++ Bytes.eq :: v)
    rw [h] at this
    cases name with
    | nil => exact absurd rfl hne
    | cons x xs => simp [ParsedArg.isLong, startsWith, ParsedArg.isEscape] at this
  | some r =>
    obtain ⟨n', u, v'⟩ := r
    obtain ⟨h1, h2, h3, _⟩ := C13.toLong_reassembles _ n' u v' h
    -- both decompositions split at the first `=`
    have key : ∀ (a b : Bytes) (ta tb : Bytes), Bytes.eq ∉ a → Bytes.eq ∉ b → a ++ Bytes.eq :: ta = b ++ Bytes.eq :: tb → a = b ∧ ta = tb := by
      intro a
      induction a with
      | nil =>
        intro b ta tb _ hb hab
        cases b with
        | nil => simpa using hab
        | cons y ys => simp at hab; exact absurd hab.1.symm (by intro hh; exact hb (by simp [hh]))
      | cons x xs ih =>
        intro b ta tb ha hb hab
        cases b with
        | nil => simp at hab; exact absurd hab.1 (by intro hh; exact ha (by simp [hh]))
        | cons y ys =>
          simp at hab
          obtain ⟨i1, i2⟩ := ih ys ta tb (fun hh => ha (by simp [hh])) (fun hh => hb (by simp [hh])) hab.2
          exact ⟨by rw [hab.1, i1], i2⟩
    cases v' with
    | none =>
      simp [C13.longTail] at h1
      -- then `name ++ '=' :: v = n'` would contain `=`
      exact absurd (by rw [← h1]; simp) h2
    | some w =>
      simp only [C13.longTail, List.cons_append, List.cons.injEq, true_and] at h1
      obtain ⟨e1, e2⟩ := key name n' v w hname h2 h1
      subst e1; subst e2
      rw [h3]

theorem toLong_separate (name : Bytes) (hname : Bytes.eq ∉ name) (hne : name ≠ []) :
    ParsedArg.toLong (dash :: dash :: name) = some (name, Utf8.valid name, none) := by
  cases h : ParsedArg.toLong (dash :: dash :: name) with
  | none =>
    have := C13.isLong_iff_toLong (dash :: dash :: name)
    rw [h] at this
    cases name with
    | nil => exact absurd rfl hne
    | cons x xs => simp [ParsedArg.isLong, startsWith, ParsedArg.isEscape] at this
  | some r =>
    obtain ⟨n', u, v'⟩ := r
    obtain ⟨h1, h2, h3, _⟩ := C13.toLong_reassembles _ n' u v' h
    cases v' with
    | none => simp [C13.longTail] at h1; subst h1; rw [h3]
    | some w =>
      simp only [C13.longTail, List.cons_append, List.cons.injEq, true_and] at h1
      exact absurd (by rw [h1]; simp) hname

/-! #### aliases are first-class keys -/

/-- every long alias of an arg is a key of that arg, exactly like its canonical long name -/
theorem alias_is_key (a : Arg) (al : Bytes) (hidx : a.index = none) (h : al ∈ a.aliases) : Key.long al ∈ a.keys := by
  unfold Arg.keys
  simp [hidx, h]

theorem long_is_key (a : Arg) (l : Bytes) (hidx : a.index = none) (h : a.long = some l) : Key.long l ∈ a.keys := by
  unfold Arg.keys
  simp [hidx, h]

/-- if no other arg claims the key, the alias resolves to the same arg as the name does
(key uniqueness across args is what `debug_asserts` enforces) -/
theorem alias_equiv (c : Cmd) (a : Arg) (l al : Bytes) (ha : a ∈ c.args) (hidx : a.index = none)
    (hl : a.long = some l) (hal : al ∈ a.aliases)
    (huniq : ∀ b ∈ c.args, ∀ k, k ∈ b.keys → k ∈ a.keys → b = a) :
    c.getLong al = some a ∧ c.getLong l = some a := by
  have key : ∀ k, k ∈ a.keys → c.getKey k = some a := by
    intro k hk
    unfold Cmd.getKey
    cases hf : c.args.find? (fun x => x.keys.contains k) with
    | none =>
      have := List.find?_eq_none.1 hf a ha
      simp [hk] at this
    | some b =>
      have hb := List.mem_of_find?_eq_some hf
      have hbk : k ∈ b.keys := by have := List.find?_some hf; simpa using this
      rw [huniq b hb k hbk hk]
  exact ⟨key _ (alias_is_key a al hidx hal), key _ (long_is_key a l hidx hl)⟩

/-! #### prefix inference -/

/-- an exact name (or alias) always wins, inference or not -/
theorem exact_wins (c : Cmd) (l : Bytes) (a : Arg) (h : c.getLong l = some a) : findLong c l = some a := by
  simp [findLong, h]

/-- without `infer_long_args` a prefix is never accepted -/
theorem no_inference_no_prefix (c : Cmd) (l : Bytes) (h : c.getLong l = none) (hi : c.settings.inferLongArgs = false) :
    findLong c l = none := by
  simp [findLong, h, hi]

/-- **an ambiguous prefix is never silently resolved**: if two different args have a
long/alias starting with the text (and it is nobody's exact name), the lookup fails -/
theorem ambiguous_prefix_rejected (c : Cmd) (l : Bytes) (a b : Arg) (hne : a ≠ b)
    (ha : a ∈ c.args) (hb : b ∈ c.args) (hpa : prefixMatches a l = true) (hpb : prefixMatches b l = true)
    (hexact : c.getLong l = none) : findLong c l = none := by
  unfold findLong
  simp only [hexact]
  split
  · -- the filtered candidate list has at least two elements
    have hfa : a ∈ c.args.filter fun x => prefixMatches x l := by simp [List.mem_filter, ha, hpa]
    have hfb : b ∈ c.args.filter fun x => prefixMatches x l := by simp [List.mem_filter, hb, hpb]
    split
    · next x hx =>
      rw [hx] at hfa hfb
      simp at hfa hfb
      exact absurd (hfa.trans hfb.symm) hne
    · rfl
  · rfl

/-- a prefix resolves only to an arg one of whose names it is a prefix of -/
theorem inferred_is_candidate (c : Cmd) (l : Bytes) (a : Arg) (hexact : c.getLong l = none)
    (h : findLong c l = some a) : a ∈ c.args ∧ prefixMatches a l = true := by
  unfold findLong at h
  simp only [hexact] at h
  split at h
  · split at h
    · next x hx =>
      simp at h; subst h
      have : x ∈ c.args.filter fun y => prefixMatches y l := by rw [hx]; simp
      simpa [List.mem_filter] using this
    · simp at h
  · simp at h

end Clap.C08
