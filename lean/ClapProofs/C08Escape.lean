/-
C08 — an explicit `--` before positional values that do not look like flags leaves the result unchanged
(whole command lines, any length): `prog <opts…> v1 v2 …` and `prog <opts…> -- v1 v2 …` are observed identically
when the values go to single-valued positionals, `dont_delimit_trailing_values` is off and no positional is `last`.
-/
import ClapProofs.C05Line
namespace Clap.C08
open Clap Parser Bytes

/-- without `dont_delimit_trailing_values` the trailing mark plays no role in how values are split -/
theorem splitDelim_noTrailing (c : Cmd) (h : c.settings.dontDelimitTrailingValues = false) (a : Arg) (vals : List Bytes)
    (t : Option Nat) : splitDelim c a vals t = splitDelim c a vals none := by
  have go : ∀ (d : Bytes) (vs : List Bytes) (i : Nat), splitDelim.go c t d i vs = splitDelim.go c none d i vs := by
    intro d vs
    induction vs with
    | nil => intro i; simp [splitDelim.go]
    | cons v vs ih => intro i; simp [splitDelim.go, h, ih]
  unfold splitDelim
  cases a.delim with
  | none => rfl
  | some d => simp [h, go]

theorem reactCore_noTrailing (c : Cmd) (h : c.settings.dontDelimitTrailingValues = false) (ident : Option Ident) (s : Source)
    (a : Arg) (vals : List Bytes) (t : Option Nat) (p : P) :
    reactCore c ident s a vals t p = reactCore c ident s a vals none p := by
  unfold reactCore
  by_cases hm : (vals.isEmpty && !a.defaultMissing.isEmpty) = true
  · simp only [hm, ↓reduceIte]
  · simp only [hm, Bool.false_eq_true, ↓reduceIte, splitDelim_noTrailing c h a vals t]

/-- positional handling after the escape needs no special counter rules -/
structure PlainTrailing (c : Cmd) : Prop where
  noDontDelimit : c.settings.dontDelimitTrailingValues = false
  noMissing : c.settings.allowMissingPositional = false
  noLast : c.args.any (·.last) = false
  noExternal : c.settings.allowExternalSubcommands = false

theorem correctPosCounter_trailing {c : Cmd} (sp : C02.SimplePos c) (pt : PlainTrailing c) (ls : LoopSt) (peek : Option Bytes)
    (htr : ls.trailing = true) : correctPosCounter c ls peek = ls.posCounter := by
  have h1 : (c.positionals.any fun a => a.isMultiple && c.positionalCount != a.index.getD 0) = false := by
    apply Bool.eq_false_iff.2
    intro h
    rw [List.any_eq_true] at h
    obtain ⟨a, ha, h2⟩ := h
    unfold Cmd.positionals at ha
    obtain ⟨ha1, ha2⟩ := List.mem_filter.1 ha
    simp only [Bool.and_eq_true] at h2
    have := sp.lastOnly a ha1 ha2 h2.1
    rw [this] at h2
    simp at h2
  unfold correctPosCounter
  simp [h1, pt.noMissing, pt.noLast, htr]

/-- **a positional value after the escape** (single-valued positional): whatever is pending is resolved, the token is
left pending verbatim for the positional whose turn it is, and the counter moves on - whatever the token looks like -/
theorem trailing_pos_step (c : Cmd) (sp : C02.SimplePos c) (pt : PlainTrailing c) (similar : Bytes → Bytes → Bool)
    (v : Bytes) (a : Arg) (hsingle : C02.SinglePos a)
    (ls : LoopSt) (rest : List Bytes) (p : P) (htr : ls.trailing = true)
    (hget : c.getPos ls.posCounter = some a) :
    loop c similar ls (v :: rest) p =
      match resolvePending c p with
      | (q, .error e) => (q, .error e)
      | (q, .ok ()) =>
        loop c similar { ls with st := .valuesDone, posCounter := ls.posCounter + 1, validArgFound := true } rest
          { q with pending := some { id := a.id, ident := some .index, rawVals := [v], trailingIdx := some 0 } } := by
  obtain ⟨hmul, hmv, hlast, htva, hterm⟩ := hsingle
  have hterm' : isTerminator a v = false := by simp [isTerminator, hterm]
  have hcp := correctPosCounter_trailing sp pt ls rest.head? htr
  rw [loop]
  simp only [htr, ↓reduceIte, positionalPart, hcp, hget, hlast, Bool.false_and, hmv, Bool.not_false, Bool.or_true, htva,
    Bool.or_false, Bool.false_eq_true]
  cases hr : resolvePending c p with
  | mk q r =>
    cases r with
    | error e => simp
    | ok u =>
      have hqn : q.pending = none := C02.resolvePending_ok_pending c p q u hr
      simp [hterm', pendingPush, hqn, hmul, htr]

/-- the values after the escape, as the caller of the loop observes them: one `react` per value on the positional
whose turn it is -/
theorem trailing_pos_run (c : Cmd) (wf : C01.WF c) (sp : C02.SimplePos c) (pt : PlainTrailing c) (similar : Bytes → Bytes → Bool) :
    ∀ (vals : List Bytes) (ls : LoopSt), ls.trailing = true →
      (∀ k, k < vals.length → ∃ a, c.getPos (ls.posCounter + k) = some a ∧ C02.SinglePos a) →
      C02.RF c (fun _ => True) (fun p => C02.obs c (loop c similar ls vals p))
        (fun q => C02.runAtomsK c (vals.map C02.Atom.pos) ls.posCounter q (fun _ q' => .ok (q', .done))) := by
  intro vals
  induction vals with
  | nil =>
    intro ls _ _ p _ _
    simp only [loop, C02.obs, List.map_nil, C02.runAtomsK]
    cases resolvePending c p with
    | mk q r => cases r <;> rfl
  | cons v rest ih =>
    intro ls htr hpos
    obtain ⟨a, hget, hsingle⟩ := hpos 0 (by simp)
    simp only [Nat.add_zero] at hget
    obtain ⟨hfind, _⟩ := C01.getPos_spec wf hget
    have ih' := ih { ls with st := .valuesDone, posCounter := ls.posCounter + 1, validArgFound := true } htr (by
      intro k hk
      have := hpos (k + 1) (by simp; omega)
      simpa [Nat.add_assoc, Nat.add_comm 1 k] using this)
    intro p h0 _
    simp only
    rw [trailing_pos_step c sp pt similar v a hsingle ls rest p htr hget]
    cases hr : resolvePending c p with
    | mk q r =>
      have hq0 : q.flagSubSkip = 0 := by have := C01.resolvePending_fss c p; rw [hr] at this; rw [this]; exact h0
      cases r with
      | error e => rfl
      | ok u =>
        have hqn : q.pending = none := C02.resolvePending_ok_pending c p q u hr
        have hq' : ({ q with pending := none } : P) = q := by cases q; simp_all
        simp only
        have key := ih' { q with pending := some { id := a.id, ident := some .index, rawVals := [v], trailingIdx := some 0 } } hq0 trivial
        simp only at key
        rw [key]
        simp only [resolvePending, hfind, hq', List.map_cons]
        rw [C02.runAtomsK_pos c _ a v _ _ q hget, C02.react_none c _ _ _ _ _ q hqn,
          reactCore_noTrailing c pt.noDontDelimit (some .index) .cmdline a [v] (some 0) q]
        have hp := C01.reactCore_pending c (some .index) .cmdline a [v] none q
        cases hrc : reactCore c (some .index) .cmdline a [v] none q with
        | mk p1 r1 =>
          rw [hrc] at hp
          cases r1 with
          | error e => rfl
          | ok x => rfl

/-- positional values as occurrences -/
theorem okAll3_pos (c : Cmd) : ∀ (vals : List Bytes) (pc : Nat),
    (∀ v ∈ vals, C02.NoSubTok c v ∧ Bytes.startsWith v [dash] = false) →
    (∀ k, k < vals.length → ∃ a, c.getPos (pc + k) = some a ∧ C02.SinglePos a) →
    C02.okAll3 c (vals.map C02.Occ3.pos) pc
  | [], _, _, _ => trivial
  | v :: rest, pc, hv, hp => by
    obtain ⟨h1, h2⟩ := hv v List.mem_cons_self
    refine ⟨h1, h2, by simpa using hp 0 (by simp), okAll3_pos c rest (pc + 1) (fun v' hv' => hv v' (List.mem_cons_of_mem _ hv')) ?_⟩
    intro k hk
    have := hp (k + 1) (by simp; omega)
    simpa [Nat.add_assoc, Nat.add_comm 1 k] using this

theorem flatMap_pos_spell (vals : List Bytes) : (vals.map C02.Occ3.pos).flatMap C02.Occ3.spell = vals := by
  induction vals with
  | nil => rfl
  | cons v rest ih => simp [C02.Occ3.spell, ih]

theorem flatMap_pos_atoms (vals : List Bytes) : (vals.map C02.Occ3.pos).flatMap C02.Occ3.atoms = vals.map C02.Atom.pos := by
  induction vals with
  | nil => rfl
  | cons v rest ih => simp [C02.Occ3.atoms, ih]

/-- nothing that is pending has been marked as trailing -/
def Unmarked : Option Pending → Prop := fun pend => ∀ pd, pend = some pd → pd.trailingIdx = none

/-- **an explicit `--` before positional values changes nothing** (C08, whole command lines): after any prefix in the
scope of the attribution refinement, values that do not look like flags (and are not subcommand names) for
single-valued positionals are observed identically with and without a bare `--` in front of them - provided
`dont_delimit_trailing_values` is off and no positional is `last` (the documented exceptions) -/
theorem explicit_escape_equiv (c : Cmd) (wf : C01.WF c) (sp : C02.SimplePos c) (pp : C02.PlainPos c) (pt : PlainTrailing c)
    (similar : Bytes → Bytes → Bool) (occs : List C02.Occ3) (vals : List Bytes) (ls : LoopSt) (p : P)
    (hok : C02.okAll3 c occs ls.posCounter) (htr : ls.trailing = false) (hst : ls.st = .valuesDone)
    (hfss : p.flagSubSkip = 0) (hpend : Unmarked p.pending)
    (hvals : ∀ v ∈ vals, C02.NoSubTok c v ∧ Bytes.startsWith v [dash] = false)
    (hposs : ∀ k, k < vals.length → ∃ a, c.getPos (C02.pcAfter occs ls.posCounter + k) = some a ∧ C02.SinglePos a)
    (hns : C02.NoSubTok c [dash, dash]) :
    C02.obs c (loop c similar ls (occs.flatMap C02.Occ3.spell ++ vals) p) =
      C02.obs c (loop c similar ls (occs.flatMap C02.Occ3.spell ++ [dash, dash] :: vals) p) := by
  have hJn : Unmarked none := by intro pd h; cases h
  have hJocc : ∀ (a : Arg) (i : Ident) (v : Bytes), c.find a.id = some a → (a.index = none ∨ C02.SinglePos a) →
      Unmarked (some { id := a.id, ident := some i, rawVals := [v], trailingIdx := none }) := by
    intro a i v _ _ pd h; cases h; rfl
  have h1 : (C02.lsAfter ls occs).trailing = false := htr
  have h2 : (C02.lsAfter ls occs).st = .valuesDone := hst
  have h3 : (C02.lsAfter ls occs).posCounter = C02.pcAfter occs ls.posCounter := rfl
  -- without the escape: the values are positional occurrences like any other
  have hendA : C02.RF c Unmarked (fun p' => C02.obs c (loop c similar (C02.lsAfter ls occs) vals p'))
      (fun q => C02.runAtomsK c (vals.map C02.Atom.pos) (C02.pcAfter occs ls.posCounter) q (fun _ q' => .ok (q', .done))) := by
    have hdone : C02.RF c Unmarked
        (fun p' => C02.obs c (loop c similar (C02.lsAfter (C02.lsAfter ls occs) (vals.map C02.Occ3.pos)) [] p'))
        (fun q => .ok (q, .done)) := by
      intro p' _ _
      simp only [loop, C02.obs]
      cases resolvePending c p' with
      | mk q r => cases r <;> rfl
    have := C02.loop_clusters_then c wf sp pp similar [] Unmarked hJn hJocc (vals.map C02.Occ3.pos) (C02.lsAfter ls occs)
      (okAll3_pos c vals _ hvals (by rw [h3]; exact hposs)) h1 h2 _ hdone
    rw [flatMap_pos_spell, flatMap_pos_atoms, List.append_nil, h3] at this
    exact this
  -- with the escape: trailing mode, one value per positional
  have hendB : C02.RF c Unmarked (fun p' => C02.obs c (loop c similar (C02.lsAfter ls occs) ([dash, dash] :: vals) p'))
      (fun q => C02.runAtomsK c (vals.map C02.Atom.pos) (C02.pcAfter occs ls.posCounter) q (fun _ q' => .ok (q', .done))) := by
    intro p' h0 hJ
    simp only
    rw [C05.escape_sets_trailing c similar _ vals p' h1 (by simp [h2, hns _]) none (by simp [stateArg, h2]) rfl]
    have hrun := trailing_pos_run c wf sp pt similar vals { C02.lsAfter ls occs with trailing := true } rfl (by
      intro k hk; exact hposs k hk)
    have h0' : (startTrailing p').flagSubSkip = 0 := by
      unfold startTrailing; cases p'.pending <;> exact h0
    have := hrun (startTrailing p') h0' trivial
    simp only at this
    rw [this, C05.resolvePending_startTrailing c p' hJ]
    rfl
  have eA := C02.loop_clusters_then c wf sp pp similar vals Unmarked hJn hJocc occs ls hok htr hst _ hendA p hfss hpend
  have eB := C02.loop_clusters_then c wf sp pp similar ([dash, dash] :: vals) Unmarked hJn hJocc occs ls hok htr hst _ hendB p hfss hpend
  simp only at eA eB
  rw [eA, eB]

end Clap.C08
