/-
C03 — the transitive closure of `requires`: the work-list walk `unroll_arg_requires` (fuel-bounded in the model) runs
dry before its fuel does, and what it returns contains everything reachable from the starting arg through `requires`
edges; hence after a successful validation whatever an explicitly present arg requires *transitively* is present.
-/
import ClapProofs.C03Req
namespace Clap.C03
open Clap Parser Validator

/-- the `requires` targets of an arg that the filter lets through -/
def targets (relevant : Pred × Id → Option Id) (arg : Arg) : List Id := arg.requires.filterMap relevant

/-- `b` is reached from `x` through one or more `requires` edges -/
inductive Reach (c : Cmd) (relevant : Pred × Id → Option Id) : Id → Id → Prop
  | direct {x b : Id} {arg : Arg} : c.find x = some arg → b ∈ targets relevant arg → Reach c relevant x b
  | step {x y b : Id} {arg : Arg} : Reach c relevant x y → c.find y = some arg → b ∈ targets relevant arg → Reach c relevant x b

/-- what is still to be expanded: the `requires` entries of the args not yet processed -/
def potL : List Arg → List Id → Nat
  | [], _ => 0
  | x :: l, processed => (if processed.contains x.id then 0 else x.requires.length) + potL l processed

theorem contains_append_of (processed : List Id) (a x : Id) (h : processed.contains x = true) :
    (processed ++ [a]).contains x = true := by
  rw [List.contains_iff_mem] at h ⊢
  exact List.mem_append_left _ h

theorem potL_mono (a : Id) : ∀ (l : List Arg) (processed : List Id), potL l (processed ++ [a]) ≤ potL l processed
  | [], _ => Nat.le_refl _
  | x :: l, processed => by
    have ih := potL_mono a l processed
    simp only [potL]
    by_cases h1 : processed.contains x.id = true
    · rw [if_pos h1, if_pos (contains_append_of processed a x.id h1)]; omega
    · rw [if_neg h1]
      split <;> omega

theorem potL_drop (a : Id) (arg : Arg) : ∀ (l : List Arg) (processed : List Id), arg ∈ l → arg.id = a →
    processed.contains a = false → potL l (processed ++ [a]) + arg.requires.length ≤ potL l processed
  | [], _, h, _, _ => by cases h
  | x :: l, processed, h, hid, hnp => by
    simp only [potL]
    rcases List.mem_cons.1 h with rfl | h'
    · have h1 : ¬ processed.contains arg.id = true := by rw [hid, hnp]; simp
      have h2 : (processed ++ [a]).contains arg.id = true := by
        rw [List.contains_iff_mem]; exact List.mem_append_right _ (by simp [hid])
      have := potL_mono a l processed
      rw [if_neg h1, if_pos h2]; omega
    · have ih := potL_drop a arg l processed h' hid hnp
      by_cases h1 : processed.contains x.id = true
      · rw [if_pos h1, if_pos (contains_append_of processed a x.id h1)]; omega
      · rw [if_neg h1]
        split <;> omega

theorem potL_nil : ∀ (l : List Arg), potL l [] = (l.map fun x => x.requires.length).sum
  | [] => rfl
  | x :: l => by simp [potL, potL_nil l]

/-- the inner fold of one expansion: every target is recorded; those with requirements of their own are pushed -/
theorem expand_spec (c : Cmd) (rs : List Id) : ∀ (acc : List Id × List Id),
    let out := rs.foldl (fun (acc : List Id × List Id) r =>
      let push := match c.find r with | some req => !req.requires.isEmpty | none => false
      ((if push then r :: acc.1 else acc.1), acc.2 ++ [r])) acc
    out.1.length ≤ acc.1.length + rs.length ∧
    (∀ x ∈ acc.1, x ∈ out.1) ∧ (∀ x ∈ acc.2, x ∈ out.2) ∧ (∀ r ∈ rs, r ∈ out.2) ∧
    (∀ r ∈ rs, ∀ req, c.find r = some req → req.requires ≠ [] → r ∈ out.1) := by
  induction rs with
  | nil => intro acc; simp
  | cons r rs ih =>
    intro acc
    simp only [List.foldl_cons]
    generalize hpush : (match c.find r with | some req => !req.requires.isEmpty | none => false) = push
    obtain ⟨h1, h2, h3, h4, h5⟩ := ih ((if push then r :: acc.1 else acc.1), acc.2 ++ [r])
    simp only at h1 h2 h3 h4 h5
    refine ⟨?_, ?_, ?_, ?_, ?_⟩
    · have : (if push = true then r :: acc.1 else acc.1).length ≤ acc.1.length + 1 := by split <;> simp
      simp only [List.length_cons]; omega
    · intro x hx; apply h2; split <;> simp [hx]
    · intro x hx; apply h3; simp [hx]
    · intro x hx
      rcases List.mem_cons.1 hx with rfl | hx'
      · apply h3; simp
      · exact h4 x hx'
    · intro x hx req hf hne
      rcases List.mem_cons.1 hx with rfl | hx'
      · apply h2
        have he : req.requires.isEmpty = false := by cases hr : req.requires <;> simp_all
        have : push = true := by rw [← hpush, hf]; simp [he]
        simp [this]
      · exact h5 x hx' req hf hne

/-- the invariant of the work list: what has been processed has all its targets recorded, and every target with
requirements of its own is processed or waiting -/
def Inv (c : Cmd) (relevant : Pred × Id → Option Id) (rvec processed args : List Id) : Prop :=
  ∀ y ∈ processed, ∀ arg, c.find y = some arg → ∀ r ∈ targets relevant arg,
    r ∈ args ∧ ∀ req, c.find r = some req → req.requires ≠ [] → r ∈ processed ∨ r ∈ rvec

/-- what the walk returns is closed: some set of processed ids contains the start and everything waiting, all their
targets are in the result, and targets with requirements of their own are processed too -/
def Closed (c : Cmd) (relevant : Pred × Id → Option Id) (procd result : List Id) : Prop :=
  ∀ y ∈ procd, ∀ arg, c.find y = some arg → ∀ r ∈ targets relevant arg,
    r ∈ result ∧ ∀ req, c.find r = some req → req.requires ≠ [] → r ∈ procd

theorem find_mem {c : Cmd} {a : Id} {arg : Arg} (h : c.find a = some arg) : arg ∈ c.args ∧ arg.id = a := by
  unfold Cmd.find at h
  exact ⟨List.mem_of_find?_eq_some h, by simpa using List.find?_some h⟩

/-- **the work list runs dry**: with fuel at least `|work list| + Σ requires of unprocessed args`, the walk ends with a
closed result that has processed everything that was waiting -/
theorem unroll_closed (c : Cmd) (relevant : Pred × Id → Option Id) : ∀ (fuel : Nat) (rvec processed args : List Id),
    rvec.length + potL c.args processed ≤ fuel → Inv c relevant rvec processed args →
    ∃ procd, Closed c relevant procd (unrollArgRequires c relevant fuel rvec processed args) ∧
      (∀ y ∈ processed, y ∈ procd) ∧ (∀ y ∈ rvec, y ∈ procd) := by
  intro fuel
  induction fuel with
  | zero =>
    intro rvec processed args hf hinv
    cases rvec with
    | nil =>
      refine ⟨processed, ?_, fun y hy => hy, by intro y hy; cases hy⟩
      unfold unrollArgRequires
      intro y hy arg hfa r hr
      obtain ⟨h1, h2⟩ := hinv y hy arg hfa r hr
      exact ⟨h1, fun req hq hne => (h2 req hq hne).elim id (by intro h; cases h)⟩
    | cons a rvec => simp at hf
  | succ fuel ih =>
    intro rvec processed args hf hinv
    cases rvec with
    | nil =>
      refine ⟨processed, ?_, fun y hy => hy, by intro y hy; cases hy⟩
      unfold unrollArgRequires
      intro y hy arg hfa r hr
      obtain ⟨h1, h2⟩ := hinv y hy arg hfa r hr
      exact ⟨h1, fun req hq hne => (h2 req hq hne).elim id (by intro h; cases h)⟩
    | cons a rvec =>
      unfold unrollArgRequires
      by_cases hp : processed.contains a = true
      · simp only [hp, ↓reduceIte]
        have hpm : a ∈ processed := by simpa using hp
        obtain ⟨procd, hc, h1, h2⟩ := ih rvec processed args (by simp at hf; omega) (by
          intro y hy arg hfa r hr
          obtain ⟨g1, g2⟩ := hinv y hy arg hfa r hr
          refine ⟨g1, fun req hq hne => ?_⟩
          rcases g2 req hq hne with g | g
          · exact Or.inl g
          · rcases List.mem_cons.1 g with rfl | g'
            · exact Or.inl hpm
            · exact Or.inr g')
        exact ⟨procd, hc, h1, fun y hy => by
          rcases List.mem_cons.1 hy with rfl | hy'
          · exact h1 _ hpm
          · exact h2 y hy'⟩
      · have hp' : processed.contains a = false := by simpa using hp
        simp only [hp', Bool.false_eq_true, ↓reduceIte]
        cases hfa : c.find a with
        | none =>
          simp only
          obtain ⟨procd, hc, h1, h2⟩ := ih rvec (processed ++ [a]) args (by
              have := potL_mono a c.args processed
              simp at hf; omega) (by
            intro y hy arg hfy r hr
            rcases List.mem_append.1 hy with hy' | hy'
            · obtain ⟨g1, g2⟩ := hinv y hy' arg hfy r hr
              refine ⟨g1, fun req hq hne => ?_⟩
              rcases g2 req hq hne with g | g
              · exact Or.inl (List.mem_append_left _ g)
              · rcases List.mem_cons.1 g with rfl | g'
                · exact Or.inl (List.mem_append_right _ (by simp))
                · exact Or.inr g'
            · simp at hy'; subst hy'; rw [hfa] at hfy; cases hfy)
          exact ⟨procd, hc, fun y hy => h1 y (List.mem_append_left _ hy), fun y hy => by
            rcases List.mem_cons.1 hy with rfl | hy'
            · exact h1 _ (List.mem_append_right _ (by simp))
            · exact h2 y hy'⟩
        | some arg =>
          simp only
          obtain ⟨hm, hid⟩ := find_mem hfa
          obtain ⟨e1, e2, e3, e4, e5⟩ := expand_spec c (arg.requires.filterMap relevant) (rvec, args)
          simp only at e1 e2 e3 e4 e5
          have hlen : (arg.requires.filterMap relevant).length ≤ arg.requires.length := List.length_filterMap_le _ _
          generalize hout : List.foldl _ (rvec, args) (arg.requires.filterMap relevant) = out at e1 e2 e3 e4 e5 ⊢
          obtain ⟨rv, ar⟩ := out
          simp only at e1 e2 e3 e4 e5 ⊢
          obtain ⟨procd, hc, h1, h2⟩ := ih rv (processed ++ [a]) ar (by
              have := potL_drop a arg c.args processed hm hid hp'
              simp at hf; omega) (by
            intro y hy arg' hfy r hr
            rcases List.mem_append.1 hy with hy' | hy'
            · obtain ⟨g1, g2⟩ := hinv y hy' arg' hfy r hr
              refine ⟨e3 r g1, fun req hq hne => ?_⟩
              rcases g2 req hq hne with g | g
              · exact Or.inl (List.mem_append_left _ g)
              · rcases List.mem_cons.1 g with rfl | g'
                · exact Or.inl (List.mem_append_right _ (by simp))
                · exact Or.inr (e2 r g')
            · simp at hy'; subst hy'
              rw [hfa] at hfy; cases hfy
              exact ⟨e4 r hr, fun req hq hne => Or.inr (e5 r hr req hq hne)⟩)
          exact ⟨procd, hc, fun y hy => h1 y (List.mem_append_left _ hy), fun y hy => by
            rcases List.mem_cons.1 hy with rfl | hy'
            · exact h1 _ (List.mem_append_right _ (by simp))
            · exact h2 y (e2 y hy')⟩

/-- everything reachable from a processed id is in a closed result -/
theorem closed_reach {c : Cmd} {relevant : Pred × Id → Option Id} {procd result : List Id}
    (hc : Closed c relevant procd result) {x b : Id} (hx : x ∈ procd) (h : Reach c relevant x b) :
    b ∈ result ∧ ∀ req, c.find b = some req → req.requires ≠ [] → b ∈ procd := by
  induction h with
  | direct hf hb => exact hc _ hx _ hf _ hb
  | @step y b' arg _ hf hb ih =>
    have hne : arg.requires ≠ [] := by
      intro h0; unfold targets at hb; rw [h0] at hb; simp at hb
    exact hc _ (ih.2 arg hf hne) _ hf _ hb

/-- **completeness of the `requires` walk**: with the model's fuel, everything reachable from the starting arg through
`requires` edges is in the result - the fuel never cuts the walk short -/
theorem unroll_complete (c : Cmd) (relevant : Pred × Id → Option Id) (a b : Id) (h : Reach c relevant a b) :
    b ∈ unrollArgRequires c relevant (requiresFuel c) [a] [] [] := by
  have hpot := potL_nil c.args
  obtain ⟨procd, hc, _, h2⟩ := unroll_closed c relevant (requiresFuel c) [a] [] [] (by
      rw [hpot]; unfold requiresFuel; simp; omega) (by intro y hy; cases hy)
  exact (closed_reach hc (h2 a (by simp)) h).1

/-- the filter `gather_requires` applies along the whole walk: the condition of each edge is tested against the values
of the arg the walk started from -/
def relevantFor (ma : MatchedArg) : Pred × Id → Option Id := fun pr => if ma.checkExplicit pr.1 then some pr.2 else none

/-- whatever an explicitly present arg requires, directly or through further `requires`, is walked by
`validate_required` -/
theorem reach_in_graph (c : Cmd) (m : ArgMap) (a : Arg) (ma : MatchedArg) (b : Id)
    (hfa : c.find a.id = some a) (hma : m.get a.id = some ma) (hex : ma.checkExplicit .isPresent = true)
    (hreach : Reach c (relevantFor ma) a.id b) : b ∈ requiredIds c m := by
  unfold requiredIds
  apply mem_foldl_dedup_extra
  unfold gatherRequires
  unfold ArgMap.get at hma
  cases hf : m.find? (fun p => p.1 == a.id) with
  | none => rw [hf] at hma; simp at hma
  | some e =>
    rw [hf] at hma
    have he2 : e.2 = ma := by simpa using hma
    have hem : e ∈ m := List.mem_of_find?_eq_some hf
    have he1 : e.1 = a.id := by simpa using List.find?_some hf
    rw [List.mem_flatMap]
    refine ⟨e, List.mem_filter.2 ⟨hem, by rw [he2]; exact hex⟩, ?_⟩
    simp only [he1, hfa, he2]
    exact unroll_complete c (relevantFor ma) a.id b hreach

/-- **transitive `requires` holds after a successful parse**: if `a` is explicitly present and `b` is reached from it
through any chain of `requires` / `requires_if` edges (conditions tested, as the code does, against `a`'s values),
then `b` is explicitly present - unless a documented exemption applies -/
theorem requires_transitively_present (c : Cmd) (p : P) (hv : validate c p = .ok ()) (a b : Arg) (ma : MatchedArg)
    (hfa : c.find a.id = some a) (hfb : c.find b.id = some b) (hma : p.args.get a.id = some ma)
    (hex : ma.checkExplicit .isPresent = true) (hreach : Reach c (relevantFor ma) a.id b.id) :
    p.args.checkExplicit b.id .isPresent = true ∨
    (c.settings.subcommandNegatesReqs = true ∧ p.sub ≠ []) ∨
    isExclusivePresent c p.args = true ∨
    ∃ pot, potential c p.args = some pot ∧ isMissingRequiredOk c pot b = some true := by
  unfold validate at hv
  cases hp : potential c p.args with
  | none => simp [hp] at hv
  | some pot =>
    simp only [hp] at hv
    split at hv
    · simp at hv
    · split at hv
      · simp at hv
      · cases hvc : validateConflicts c p.args pot with
        | error e => simp [hvc] at hv
        | ok u =>
          simp only [hvc] at hv
          split at hv
          · next hneg =>
            unfold validateRequired at hv
            cases hl : requiredLoop c p.args pot (isExclusivePresent c p.args) (requiredIds c p.args) with
            | error e => simp [hl] at hv
            | ok missing1 =>
              simp only [hl] at hv
              cases missing1 with
              | true => simp at hv
              | false =>
                by_cases hexb : p.args.checkExplicit b.id .isPresent = true
                · exact Or.inl hexb
                · have hex' : p.args.checkExplicit b.id .isPresent = false := by simpa using hexb
                  have := (requiredLoop_ok _ hl b.id (reach_in_graph c p.args a ma b.id hfa hma hex hreach) hex').1 b hfb
                  rcases this with h | h
                  · exact Or.inr (Or.inr (Or.inl h))
                  · exact Or.inr (Or.inr (Or.inr ⟨pot, rfl, h⟩))
          · next hneg =>
            right; left
            simp only [Bool.not_eq_true', Bool.not_eq_false', Bool.and_eq_true] at hneg
            have hneg' : c.settings.subcommandNegatesReqs = true ∧ (!p.sub.isEmpty) = true := by simpa using hneg
            exact ⟨hneg'.1, by intro hs; simp [hs] at hneg'⟩

/-- a chain of three: `--a` requires `--b` requires `--c`; `c` is reached from `a` -/
example :
    let ac : Arg := { id := [99], long := some [99] }
    let ab : Arg := { id := [98], long := some [98], requires := [(.isPresent, [99])] }
    let aa : Arg := { id := [97], long := some [97], requires := [(.isPresent, [98])] }
    let c : Cmd := .mk [112] [] none none [] [] {} [aa, ab, ac] [] []
    let ma : MatchedArg := { source := some .cmdline, rawVals := [[[118]]] }
    Reach c (relevantFor ma) [97] [99] ∧ [99] ∈ unrollArgRequires c (relevantFor ma) (requiresFuel c) [[97]] [] [] := by
  intro ac ab aa c ma
  have h1 : Reach c (relevantFor ma) [97] [98] := .direct (arg := aa) (by decide) (by decide)
  have h : Reach c (relevantFor ma) [97] [99] := .step h1 (arg := ab) (by decide) (by decide)
  exact ⟨h, unroll_complete c _ _ _ h⟩

end Clap.C03
