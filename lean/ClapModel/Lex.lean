/-
L0 lexer: transliteration of `clap_lex/src/lib.rs` (`ParsedArg`, `ShortFlags`,
`split_nonutf8_once`, `is_number`) and the `OsStrExt` helpers of
`clap_lex/src/ext.rs` over `Bytes`.
-/
import ClapModel.Utf8
namespace Clap
open Bytes

/-! ### `OsStrExt` (ext.rs) -/
namespace OsStrExt

/-- `find`: `(0..=len.checked_sub(nlen)?).find(|x| bytes[x..].starts_with(needle))`.
`scanFrom h n k i` tries offsets `i, i+1, …` for `k` more windows; `h` is the
haystack already advanced to offset `i`. -/
def scanFrom (n : Bytes) : Bytes → Nat → Nat → Option Nat
  | _, 0, _ => none
  | h, k+1, i =>
    if startsWith h n then some i
    else match h with
      | [] => none
      | _ :: t => scanFrom n t k (i+1)

def find (h n : Bytes) : Option Nat :=
  if n.length ≤ h.length then scanFrom n h (h.length - n.length + 1) 0 else none

def contains (h n : Bytes) : Bool := (find h n).isSome

/-- `split_once`: `haystack[0..start]`, `haystack[start+needle.len()..]` -/
def splitOnce (h n : Bytes) : Option (Bytes × Bytes) :=
  match find h n with
  | none => none
  | some i => some (h.take i, h.drop (i + n.length))

/-- `Split` iterator collected to a list.  Fuel = `h.length + 1` iterations is
always enough for a non-empty needle (proved in `ClapProofs/C14`); the empty
needle is rejected by `assert_ne!` in the real code → `none` = panic. -/
def splitFuel (n : Bytes) : Nat → Bytes → List Bytes
  | 0, h => [h]
  | k+1, h =>
    match splitOnce h n with
    | none => [h]
    | some (a, b) => a :: splitFuel n k b

def split (h n : Bytes) : Option (List Bytes) :=
  if n.isEmpty then none else some (splitFuel n (h.length + 1) h)

end OsStrExt

/-! ### `is_number` (lib.rs) -/

structure NumSt where
  seenDot : Bool
  posE : Option Nat
  i : Nat
deriving Repr, DecidableEq

def isDigit (c : UInt8) : Bool := 0x30 ≤ c && c ≤ 0x39

/-- the `for` loop of `is_number`; `none` = early `return false` -/
def isNumberLoop : NumSt → Bytes → Option NumSt
  | st, [] => some st
  | st, c :: cs =>
    if isDigit c then isNumberLoop { st with i := st.i + 1 } cs
    else if c == 0x2E && !st.seenDot && st.posE.isNone && st.i > 0 then
      isNumberLoop { st with seenDot := true, i := st.i + 1 } cs
    else if (c == 0x65 || c == 0x45) && st.posE.isNone && st.i > 0 then
      isNumberLoop { st with posE := some st.i, i := st.i + 1 } cs
    else none

def isNumber (arg : Bytes) : Bool :=
  if arg.isEmpty then false else
  match isNumberLoop ⟨false, none, 0⟩ arg with
  | none => false
  | some st =>
    match st.posE with
    | some i => i != arg.length - 1
    | none => true

/-! ### `ShortFlags` -/

/-- `inner` is the cluster without the leading `-`; `off` is the byte offset of
the next unread character inside `inner` (what `CharIndices` would report);
`chars` are the unread characters of the valid prefix; `invalid` is
`invalid_suffix`. -/
structure ShortFlags where
  inner : Bytes
  off : Nat
  chars : List Bytes
  invalid : Option Bytes
deriving Repr, DecidableEq

namespace ShortFlags

def new (inner : Bytes) : ShortFlags :=
  let (cs, rest) := Utf8.splitValid inner
  { inner := inner, off := 0, chars := cs, invalid := if rest.isEmpty then none else some rest }

inductive Flag
  | ch (c : Bytes)          -- `Some(Ok(char))`, the char as its UTF-8 bytes
  | bad (suffix : Bytes)    -- `Some(Err(suffix))`
  | done                    -- `None`
deriving Repr, DecidableEq

def nextFlag (s : ShortFlags) : ShortFlags × Flag :=
  match s.chars with
  | c :: cs => ({ s with chars := cs, off := s.off + c.length }, .ch c)
  | [] =>
    match s.invalid with
    | some suf => ({ s with invalid := none, off := s.off + suf.length }, .bad suf)
    | none => (s, .done)

def nextValueOs (s : ShortFlags) : ShortFlags × Option Bytes :=
  match s.chars with
  | _ :: _ => ({ s with chars := [], invalid := none, off := s.inner.length }, some (s.inner.drop s.off))
  | [] =>
    match s.invalid with
    | some suf => ({ s with invalid := none, off := s.off + suf.length }, some suf)
    | none => (s, none)

def isEmpty (s : ShortFlags) : Bool := s.invalid.isNone && s.chars.isEmpty

def isNegativeNumber (s : ShortFlags) : Bool := s.invalid.isNone && isNumber s.chars.flatten

/-- `advance_by n`: `Ok(())` = `none`, `Err(i)` = `some i` -/
def advanceBy : Nat → Nat → ShortFlags → ShortFlags × Option Nat
  | 0, _, s => (s, none)
  | n+1, i, s =>
    match nextFlag s with
    | (s', .ch _) => advanceBy n (i+1) s'
    | (s', _) => (s', some i)

end ShortFlags

/-! ### `ParsedArg` -/
namespace ParsedArg

def isEmpty (b : Bytes) : Bool := b.isEmpty
def isStdio (b : Bytes) : Bool := b == [dash]
def isEscape (b : Bytes) : Bool := b == [dash, dash]

def isNegativeNumber (b : Bytes) : Bool :=
  if Utf8.valid b then
    match stripPrefix b [dash] with
    | some r => isNumber r
    | none => false
  else false

/-- `to_long`: `(flag, flag is valid UTF-8, value)` -/
def toLong (b : Bytes) : Option (Bytes × Bool × Option Bytes) :=
  match stripPrefix b [dash, dash] with
  | none => none
  | some rem =>
    if rem.isEmpty then none else
    match OsStrExt.splitOnce rem [Bytes.eq] with
    | some (p0, p1) => some (p0, Utf8.valid p0, some p1)
    | none => some (rem, Utf8.valid rem, none)

def isLong (b : Bytes) : Bool := startsWith b [dash, dash] && !isEscape b

def toShort (b : Bytes) : Option ShortFlags :=
  match stripPrefix b [dash] with
  | some rem =>
    if startsWith rem [dash] then none
    else if rem.isEmpty then none
    else some (ShortFlags.new rem)
  | none => none

def isShort (b : Bytes) : Bool := startsWith b [dash] && !isStdio b && !startsWith b [dash, dash]

end ParsedArg

end Clap
