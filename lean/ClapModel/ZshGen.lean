/-
The zsh generator (`clap_complete/src/aot/shells/zsh.rs`): the `_arguments` spec of every level (options, flags,
positionals, the jump to the subcommands), the `case $state` tree that dispatches on subcommand names and visible
aliases at every depth, and one `_<bin>_commands` function per command.  Text is `List Char`; the escapers are the
extracted chains.
-/
import ClapModel.ShellLex
namespace Clap
namespace ZshGen
open Shell

def s (x : String) : Str := x.toList

inductive Hint
  | unknown | other | files | dir | exe | cmdName | cmdString | cmdArgs | user | host | url | email | unsupported
deriving Repr, DecidableEq

structure ZArg where
  id : Str
  positional : Bool := false
  short1 : Option Str := none            -- `get_short`
  shortAliases : List Str := []          -- `get_visible_short_aliases`
  long1 : Option Str := none
  longAliases : List Str := []
  shortsAll : List Str := []             -- `get_short_and_visible_aliases`
  longsAll : List Str := []
  help : Option Str := none
  takes : Bool := false
  star : Bool := false                   -- action is `Count` or `Append`
  valueName : Option Str := none         -- first of `get_value_names`
  minVals : Nat := 0
  conflicts : List Str := []             -- `-s` / `--long` of `get_arg_conflicts_with`, in order
  pvs : Option (List (Str × Option Str × Bool)) := none   -- `utils::possible_values`: (name, help, hidden)
  hint : Hint := .unknown
  required : Bool := false
  last : Bool := false
  multi : Bool := false                  -- `num_args.max_values() > 1`
  terminator : Option Str := none
deriving Repr

inductive ZNode
  | mk (name binName : Str) (about : Option Str) (aliases : List Str) (args : List ZArg) (subs : List ZNode)
deriving Repr

namespace ZNode
def name : ZNode → Str | mk n .. => n
def binName : ZNode → Str | mk _ b .. => b
def about : ZNode → Option Str | mk _ _ a .. => a
def aliases : ZNode → List Str | mk _ _ _ al .. => al
def args : ZNode → List ZArg | mk _ _ _ _ ar _ => ar
def subs : ZNode → List ZNode | mk _ _ _ _ _ su => su
end ZNode

def escapeHelp (t : Str) : Str := applyChain Gen.zshEscapeHelp t
def escapeValue (t : Str) : Str := applyChain Gen.zshEscapeValue t

def replaceChar (t : Str) (c : Char) (r : Str) : Str := t.flatMap fun x => if x == c then r else [x]

/-- `value_completion` -/
def valueCompletion (a : ZArg) : Option Str :=
  match a.pvs with
  | some vs =>
    if vs.any fun v => !v.2.2 && v.2.1.isSome then
      some (s "((" ++ (s "\n").intercalate ((vs.filter fun v => !v.2.2).map fun v =>
        escapeValue v.1 ++ s "\\:\"" ++ escapeHelp (v.2.1.getD []) ++ s "\"") ++ s "))")
    else some (s "(" ++ (s " ").intercalate ((vs.filter fun v => !v.2.2).map (·.1)) ++ s ")")
  | none =>
    match a.hint with
    | .unknown => some (s "_default") | .other => some [] | .files => some (s "_files") | .dir => some (s "_files -/")
    | .exe => some (s "_absolute_command_paths") | .cmdName => some (s "_command_names -e") | .cmdString => some (s "_cmdstring")
    | .cmdArgs => some (s "_cmdambivalent") | .user => some (s "_users") | .host => some (s "_hosts") | .url => some (s "_urls")
    | .email => some (s "_email_addresses") | .unsupported => none

/-- `arg_conflicts` (the list itself comes from `Command::get_arg_conflicts_with`) -/
def conflictsText (a : ZArg) : Str := if a.conflicts.isEmpty then [] else s "(" ++ (s " ").intercalate a.conflicts ++ s ")"

def starText (a : ZArg) : Str := if a.star then s "*" else []

/-- `Vec<String>::join("\n")` -/
def joinLines : List Str → Str
  | [] => []
  | [x] => x
  | x :: y :: r => x ++ s "\n" ++ joinLines (y :: r)

/-- the value part of an option's spec: one `:name:action` per mandatory value; an optional value (`min_values == 0`)
is written `::name:action` (after the `fix:` for finding F24 - it used to be left out, and with it the possible values) -/
def vcOf (o : ZArg) : Str :=
  let vn := o.valueName.getD (s " ")
  let vc1 := match valueCompletion o with | some v => s ":" ++ vn ++ s ":" ++ v | none => s ":" ++ vn ++ s ": "
  if o.minVals == 0 then s ":" ++ vc1 else (List.replicate o.minVals vc1).flatten

/-- `write_opts_of` -/
def writeOptsOf (args : List ZArg) : Str :=
  joinLines ((args.filter fun a => a.takes && !a.positional).flatMap fun o =>
    let help := escapeHelp (o.help.getD [])
    let vc := vcOf o
    (o.shortsAll.map fun sh => s "'" ++ conflictsText o ++ starText o ++ s "-" ++ sh ++ s "+[" ++ help ++ s "]" ++ vc ++ s "' \\") ++
    (o.longsAll.map fun l => s "'" ++ conflictsText o ++ starText o ++ s "--" ++ l ++ s "=[" ++ help ++ s "]" ++ vc ++ s "' \\"))

/-- `write_flags_of` -/
def writeFlagsOf (args : List ZArg) : Str :=
  joinLines ((args.filter fun a => !a.takes && !a.positional).flatMap fun f =>
    let help := escapeHelp (f.help.getD [])
    let line := fun (dash name : Str) => s "'" ++ conflictsText f ++ starText f ++ dash ++ name ++ s "[" ++ help ++ s "]' \\"
    (match f.short1 with | some sh => line (s "-") sh :: f.shortAliases.map (line (s "-")) | none => []) ++
    (match f.long1 with | some l => line (s "--") l :: f.longAliases.map (line (s "--")) | none => []))

/-- the positional loop of `write_positionals_of`, with its `catch_all_emitted` flag -/
def positionalLines (hasSubs : Bool) : List ZArg → Bool → List Str
  | [], _ => []
  | a :: rest, caught =>
    if caught && (a.last || a.multi) then positionalLines hasSubs rest caught else
    let (card, caught') : Str × Bool :=
      if a.multi && !hasSubs then
        match a.terminator with
        | some t => (s "*" ++ escapeValue t ++ s ":", caught)
        | none => (s "*:", true)
      else if !a.required then (s ":", caught) else ([], caught)
    let help := match a.help with
      | some h => applyChain Gen.zshPositionalHelp (s " -- " ++ h)
      | none => []
    (s "'" ++ card ++ s ":" ++ a.id ++ help ++ s ":" ++ (valueCompletion a).getD [] ++ s "' \\") :: positionalLines hasSubs rest caught'

def writePositionalsOf (n : ZNode) : Str :=
  joinLines (positionalLines (!n.subs.isEmpty) (n.args.filter (·.positional)) false)

def uu (t : Str) : Str := replaceChar t ' ' (s "__")

/-- `get_args_of` -/
def getArgsOf (n : ZNode) : Str :=
  let opts := writeOptsOf n.args
  let flags := writeFlagsOf n.args
  let pos := writePositionalsOf n
  joinLines ([s "_arguments \"${_arguments_options[@]}\" : \\"] ++ (if opts.isEmpty then [] else [opts]) ++ (if flags.isEmpty then [] else [flags]) ++
    (if pos.isEmpty then [] else [pos]) ++
    (if n.subs.isEmpty then [] else [s "\":: :_" ++ uu n.binName ++ s "_commands\" \\", s "\"*::: :->" ++ n.name ++ s "\" \\"]) ++ [s "&& ret=0"])

/-- `subcommands_of` -/
def subcommandsOf (n : ZNode) : Str :=
  let segs := n.subs.flatMap fun c => (c.name :: c.aliases).map fun nm => s "'" ++ nm ++ s ":" ++ escapeHelp (c.about.getD []) ++ s "' \\"
  if segs.isEmpty then [] else joinLines ([[]] ++ segs ++ [s "    "])

mutual
/-- `parser_of`: the first command, depth first, whose bin name is the given one -/
def parserOf : ZNode → Str → Option ZNode
  | .mk name bin about al args subs, b => if b == bin then some (.mk name bin about al args subs) else parserOfList subs b
def parserOfList : List ZNode → Str → Option ZNode
  | [], _ => none
  | c :: cs, b => match parserOf c b with | some r => some r | none => parserOfList cs b
end

/-- `utils::subcommands`: (name or visible alias, bin name of the subcommand) -/
def subcommandPairs (n : ZNode) : List (Str × Str) := n.subs.flatMap fun c => (c.name :: c.aliases).map fun nm => (nm, c.binName)

mutual
/-- `utils::all_subcommands` -/
def allSubcommands : ZNode → List (Str × Str)
  | .mk name bin about al args subs => subcommandPairs (.mk name bin about al args subs) ++ allSubcommandsList subs
def allSubcommandsList : List ZNode → List (Str × Str)
  | [] => []
  | c :: cs => allSubcommands c ++ allSubcommandsList cs
end

/-- `get_subcommands_of`; `fuel` bounds the depth (the lookups go through `parser_of`) -/
def getSubcommandsOf : Nat → ZNode → Str
  | 0, _ => []
  | fuel+1, parent =>
    if parent.subs.isEmpty then [] else
    let all := (subcommandPairs parent).map fun (nm, bin) =>
      match parserOf parent bin with
      | none => s "<INTERNAL ERROR>"
      | some sc =>
        let args := getArgsOf sc
        let children := getSubcommandsOf fuel sc
        joinLines ([s "(" ++ nm ++ s ")"] ++ (if args.isEmpty then [] else [args]) ++ (if children.isEmpty then [] else [children]) ++ [s ";;"])
    let pos := toString ((parent.args.filter (·.positional)).length + 1) |>.toList
    s "\n    case $state in\n    (" ++ parent.name ++ s ")\n        words=($line[" ++ pos ++ s "] \"${words[@]}\")\n        (( CURRENT += 1 ))\n        curcontext=\"${curcontext%:*:*}:" ++
      replaceChar parent.binName ' ' (s "-") ++ s "-command-$line[" ++ pos ++ s "]:\"\n        case $line[" ++ pos ++ s "] in\n            " ++
      joinLines all ++ s "\n        esac\n    ;;\nesac"

/-- lexicographic order on texts (Rust's `str` order: by code point) -/
def strLe : Str → Str → Bool
  | [], _ => true
  | _ :: _, [] => false
  | a :: as, b :: bs => if a.toNat < b.toNat then true else if a.toNat > b.toNat then false else strLe as bs

def insertSorted (x : Str) : List Str → List Str
  | [] => [x]
  | y :: ys => if strLe x y then x :: y :: ys else y :: insertSorted x ys

def sortDedup (l : List Str) : List Str :=
  let sorted := l.foldl (fun acc x => insertSorted x acc) []
  sorted.foldr (fun x acc => match acc with | y :: _ => if x == y then acc else x :: acc | [] => [x]) []

def commandsFn (bin : Str) (n : ZNode) : Str :=
  [s "(( $+functions[_" ++ uu bin ++ s "_commands] )) ||\n_" ++ uu bin ++ s "_commands() {\n    local commands; commands=(", subcommandsOf n,
   s ")\n    _describe -t commands '" ++ bin ++ s " commands' commands \"$@\"\n}"].flatten

/-- `subcommand_details` -/
def subcommandDetails (root : ZNode) : Str :=
  joinLines (commandsFn root.binName root ::
    (sortDedup ((allSubcommands root).map (·.2))).map fun bin =>
      match parserOf root bin with
      | some n => commandsFn bin n
      | none => s "<INTERNAL ERROR>")

/-- the pieces of the script template, in order -/
def scriptParts (fuel : Nat) (root : ZNode) : List Str :=
  let name := root.binName
  [s "#compdef " ++ name ++ s "\n\nautoload -U is-at-least\n\n_" ++ name ++
     s "() {\n    typeset -A opt_args\n    typeset -a _arguments_options\n    local ret=1\n\n    if is-at-least 5.2; then\n        _arguments_options=(-s -S -C)\n    else\n        _arguments_options=(-s -C)\n    fi\n\n    local context curcontext=\"$curcontext\" state line\n    ",
   getArgsOf root, getSubcommandsOf fuel root, s "\n}\n\n", subcommandDetails root,
   s "\n\nif [ \"$funcstack[1]\" = \"_" ++ name ++ s "\" ]; then\n    _" ++ name ++ s " \"$@\"\nelse\n    compdef _" ++ name ++ s " " ++ name ++ s "\nfi\n"]

/-- `Zsh::generate` -/
def script (fuel : Nat) (root : ZNode) : Str := (scriptParts fuel root).flatten

end ZshGen
end Clap
