/-
The bash generator (`clap_complete/src/aot/shells/bash.rs`) with the helpers
it uses from `generator/utils.rs`, and the semantics of the fragment of bash
the generated function consists of: the `for i in ${COMP_WORDS[@]}` /
`case "${cmd},${i}"` first-match walk, the `case "${cmd}"` dispatch and
`compgen -W` as a prefix filter.
-/
import ClapModel.Bytes
namespace Clap
namespace BashGen

/-- what the generators read off one built command level -/
inductive GNode
  | mk (name : Bytes) (aliases : List Bytes) (opts : List Bytes) (valueOpts : List Bytes) (subs : List GNode)
deriving Repr

namespace GNode
def name : GNode → Bytes | mk n .. => n
/-- visible aliases -/
def aliases : GNode → List Bytes | mk _ a .. => a
/-- `all_options_for_path` without the subcommand names: `-s`, `--long`, visible aliases, positional tokens -/
def opts : GNode → List Bytes | mk _ _ o .. => o
/-- the options (`-s` / `--long` spellings) that take a value: `case "${prev}"` entries -/
def valueOpts : GNode → List Bytes | mk _ _ _ v _ => v
def subs : GNode → List GNode | mk _ _ _ _ s => s
def names (n : GNode) : List Bytes := n.name :: n.aliases
end GNode

def replaceByte (c : UInt8) (rep : Bytes) (s : Bytes) : Bytes := s.flatMap fun b => if b == c then rep else [b]

def uu : Bytes := [95, 95]

/-- `.replace('-', "__")` -/
def mangle (s : Bytes) : Bytes := replaceByte 45 uu s
/-- `.replace(' ', "__")` -/
def spaceToUu (s : Bytes) : Bytes := replaceByte 32 uu s

/-- `str::split("__")` -/
def splitUu : Bytes → Bytes → List Bytes
  | cur, [] => [cur]
  | cur, 95 :: 95 :: r => cur :: splitUu [] r
  | cur, b :: r => splitUu (cur ++ [b]) r

/-- lexicographic order on byte strings (`String`'s `Ord`) -/
def bytesLt : Bytes → Bytes → Bool
  | [], [] => false
  | [], _ :: _ => true
  | _ :: _, [] => false
  | a :: as, b :: bs => a < b || (a == b && bytesLt as bs)

def insertSorted {α} (lt : α → α → Bool) (x : α) : List α → List α
  | [] => [x]
  | y :: ys => if lt y x then y :: insertSorted lt x ys else x :: y :: ys

def sortBy {α} (lt : α → α → Bool) (l : List α) : List α := l.foldl (fun acc x => insertSorted lt x acc) []

def dedupAdj : List Bytes → List Bytes
  | a :: b :: r => if a == b then dedupAdj (b :: r) else a :: dedupAdj (b :: r)
  | l => l

mutual
/-- bash.rs `all_subcommands::add_command`: `(parent_fn_name, name | visible alias, fn_name)` for the whole subtree -/
def addCommand (parentFn : Bytes) : GNode → List (Bytes × Bytes × Bytes)
  | .mk name aliases _ _ subs =>
    let fn := parentFn ++ uu ++ mangle name
    (parentFn, name, fn) :: aliases.map (fun a => (parentFn, a, fn)) ++ addCommands fn subs
def addCommands (parentFn : Bytes) : List GNode → List (Bytes × Bytes × Bytes)
  | [] => []
  | n :: r => addCommand parentFn n ++ addCommands parentFn r
end

def tripleLt (a b : Bytes × Bytes × Bytes) : Bool :=
  bytesLt a.1 b.1 || (a.1 == b.1 && (bytesLt a.2.1 b.2.1 || (a.2.1 == b.2.1 && bytesLt a.2.2 b.2.2)))

/-- the `case "${cmd},${i}"` table, in the order the script lists it -/
def caseTable (root : GNode) : List (Bytes × Bytes × Bytes) :=
  sortBy tripleLt (addCommands (mangle root.name) root.subs)

/-- the `for i in ${COMP_WORDS[@]}` loop: the first `,$1` sets the root function name, afterwards the
first matching `parent,name)` label wins -/
def walk (root : GNode) (table : List (Bytes × Bytes × Bytes)) (cmd0 : Bytes) : Bytes → List Bytes → Bytes
  | cmd, [] => cmd
  | cmd, w :: ws =>
    let cmd' :=
      if cmd.isEmpty && w == cmd0 then mangle root.name
      else match table.find? (fun t => t.1 == cmd && t.2.1 == w) with
        | some t => t.2.2
        | none => cmd
    walk root table cmd0 cmd' ws

mutual
/-- utils.rs `all_subcommands`: `(name | visible alias, bin name)` of every level below, a level's own
entries first, then each child's subtree -/
def allSubcommands (bin : Bytes) : GNode → List (Bytes × Bytes)
  | .mk _ _ _ _ subs => levelEntries bin subs ++ allSubcommandsList bin subs
def allSubcommandsList (bin : Bytes) : List GNode → List (Bytes × Bytes)
  | [] => []
  | n :: r => allSubcommands (bin ++ [32] ++ n.name) n ++ allSubcommandsList bin r
def levelEntries (bin : Bytes) : List GNode → List (Bytes × Bytes)
  | [] => []
  | n :: r => ((n.name, bin ++ [32] ++ n.name) :: n.aliases.map fun a => (a, bin ++ [32] ++ n.name)) ++ levelEntries bin r
end

/-- `find_subcommand_with_path` (`find_subcommand(sc).unwrap()` per segment; `none` = panic). `find_subcommand`
matches names and ALL aliases; only visible ones are in the model -/
def findPath : GNode → List Bytes → Option GNode
  | n, [] => some n
  | n, s :: r =>
    match n.subs.find? (fun c => c.names.contains s) with
    | some c => findPath c r
    | none => none

/-- `all_options_for_path`: the level's own option tokens, then its subcommands' names and visible aliases -/
def levelWords (n : GNode) : List Bytes := n.opts ++ n.subs.flatMap GNode.names

structure Detail where
  label : Bytes
  level : Nat
  words : List Bytes
  valueOpts : List Bytes
deriving Repr, DecidableEq

/-- `subcommand_details`: one `case` arm per distinct bin path; `none` = the generator panics -/
def details (root : GNode) : Option (List Detail) :=
  let scs := dedupAdj (sortBy bytesLt ((allSubcommands root.name root).map fun x => spaceToUu x.2))
  scs.mapM fun sc =>
    (findPath root ((splitUu [] sc).drop 1)).map fun n =>
      { label := mangle sc, level := (splitUu [] sc).length, words := levelWords n, valueOpts := n.valueOpts }

def startsWith (p s : Bytes) : Bool := p.isPrefixOf s

inductive Reply
  | words (ws : List Bytes)     -- `compgen -W "${opts}" -- "${cur}"`
  | values                      -- `prev` is an option of the level that takes a value: value completion
  | nothing                     -- no `case "${cmd}"` arm matched: COMPREPLY stays empty
deriving Repr, DecidableEq

/-- the generated function on `COMP_WORDS = words`, `COMP_CWORD = cword`, called with `$1 = words[0]`;
outer `none` = the generator panicked while writing the script -/
def complete (root : GNode) (words : List Bytes) (cword : Nat) : Option Reply :=
  match details root with
  | none =>
    -- the root arm is written through the same path lookup
    none
  | some ds =>
    let cmd0 := words.headD []
    let cmd := walk root (caseTable root) cmd0 [] words
    let cur := words.getD cword []
    let prev := if cword == 0 then [] else words.getD (cword - 1) []
    let rootArm : Detail := { label := mangle root.name, level := 1, words := levelWords root, valueOpts := root.valueOpts }
    match (rootArm :: ds).find? (fun d => d.label == cmd) with
    | none => some .nothing
    | some d =>
      if startsWith [45] cur || cword == d.level then some (.words (d.words.filter (startsWith cur)))
      else if d.valueOpts.contains prev then some .values
      else some (.words (d.words.filter (startsWith cur)))

end BashGen
end Clap
