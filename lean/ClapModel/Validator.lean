/-
L3 validator: `clap_builder/src/parser/validator.rs` and the graph helpers of
`command.rs` (`required_graph`, `unroll_args_in_group`, `unroll_arg_requires`,
`groups_for_arg`).
-/
import ClapModel.Parser
namespace Clap
namespace Validator

/-- `unroll_args_in_group`: work list of groups, fuel-bounded (`none` = the `expect` on an unknown group).
Members that are args are collected; members that are groups are pushed. -/
def unrollArgsInGroup (c : Cmd) : Nat → List Id → List Id → Option (List Id)
  | _, [], args => some args
  | 0, _ :: _, args => some args
  | fuel+1, g :: gvec, args =>
    match c.findGroup g with
    | none => none
    | some grp =>
      -- `g_vec.pop()` takes from the end; the model keeps the list reversed (head = top of stack)
      let (args', pushed) := grp.args.foldl (fun (acc : List Id × List Id) n =>
          if acc.1.contains n then acc
          else if (c.find n).isSome then (acc.1 ++ [n], acc.2)
          else (acc.1, n :: acc.2)) (args, [])
      unrollArgsInGroup c fuel (pushed ++ gvec) args'

def argsInGroup (c : Cmd) (g : Id) : Option (List Id) := unrollArgsInGroup c (c.groups.length + c.args.length + 1) [g] []

/-- `required_graph` flattened to the ids it iterates over -/
def requiredGraph (c : Cmd) : List Id :=
  let reqArgs := (c.args.filter (·.required)).map (·.id)
  let dedup := reqArgs.foldl (fun acc i => if acc.contains i then acc else acc ++ [i]) []
  c.groups.foldl (fun acc g =>
    if g.required then
      let acc1 := if acc.contains g.id then acc else acc ++ [g.id]
      acc1 ++ g.requires        -- `insert_child` never dedups
    else acc) dedup

/-- `unroll_arg_requires` with the `is_relevant` filter of `gather_requires` -/
def unrollArgRequires (c : Cmd) (relevant : Pred × Id → Option Id) : Nat → List Id → List Id → List Id → List Id
  | 0, _, _, args => args
  | _, [], _, args => args
  | fuel+1, a :: rvec, processed, args =>
    if processed.contains a then unrollArgRequires c relevant fuel rvec processed args else
    let processed := processed ++ [a]
    match c.find a with
    | none => unrollArgRequires c relevant fuel rvec processed args
    | some arg =>
      let rs := arg.requires.filterMap relevant
      let (rvec', args') := rs.foldl (fun (acc : List Id × List Id) r =>
        let push := match c.find r with | some req => !req.requires.isEmpty | none => false
        ((if push then r :: acc.1 else acc.1), acc.2 ++ [r])) (rvec, args)
      unrollArgRequires c relevant fuel rvec' processed args'

/-- one group of `gather_arg_direct_conflicts`: the group's conflicts, and its other members if it is not `multiple`
(`none` = the `expect` on a missing group) -/
def groupConflictStep (c : Cmd) (aid : Id) (acc : Option (List Id)) (gid : Id) : Option (List Id) :=
  match acc, c.findGroup gid with
  | some l, some g => some (l ++ g.conflicts ++ (if !g.multiple then g.args.filter (· != aid) else []))
  | _, _ => none

/-- `gather_arg_direct_conflicts`: blacklist, group-derived conflicts, overrides -/
def argDirectConflicts (c : Cmd) (a : Arg) : Option (List Id) :=
  ((c.groupsForArg a.id).foldl (groupConflictStep c a.id) (some a.blacklist)).map (· ++ a.overrides)

/-- `gather_direct_conflicts` -/
def gatherDirectConflicts (c : Cmd) (id : Id) : Option (List Id) :=
  match c.find id with
  | some a => argDirectConflicts c a
  | none =>
    match c.findGroup id with
    | some g => some g.conflicts
    | none => some []       -- `debug_assert!(false)` in the source

/-- `Conflicts::with_args`: explicitly present ids with their direct conflicts -/
def potential (c : Cmd) (m : ArgMap) : Option (List (Id × List Id)) :=
  (m.filter fun p => p.2.checkExplicit .isPresent).mapM fun p =>
    (gatherDirectConflicts c p.1).map fun conf => (p.1, conf)

/-- `Conflicts::gather_conflicts` -/
def gatherConflicts (c : Cmd) (pot : List (Id × List Id)) (id : Id) : Option (List Id) :=
  let own : Option (List Id) :=
    match pot.find? fun p => p.1 == id with
    | some p => some p.2
    | none => gatherDirectConflicts c id
  own.map fun ownConf =>
    pot.flatMap fun p =>
      if p.1 == id then [] else
      (if ownConf.contains p.1 then [p.1] else []) ++ (if p.2.contains id then [p.1] else [])

def explicitIds (m : ArgMap) : List Id := (m.filter fun p => p.2.checkExplicit .isPresent).map (·.1)

/-- `validate_exclusive` -/
def validateExclusive (c : Cmd) (m : ArgMap) : Except EK Unit :=
  let present := (explicitIds m).filter fun id => (c.find id).isSome
  if present.length ≤ 1 then .ok () else
  if (explicitIds m).any fun id => ((c.find id).map (·.exclusive)).getD false then .error .argumentConflict else .ok ()

/-- `validate_conflicts` -/
def validateConflicts (c : Cmd) (m : ArgMap) (pot : List (Id × List Id)) : Except EK Unit :=
  match validateExclusive c m with
  | .error e => .error e
  | .ok () =>
    let rec go : List Id → Except EK Unit
      | [] => .ok ()
      | id :: ids =>
        match gatherConflicts c pot id with
        | none => .error (.panic "gather_conflicts: expect group")
        | some [] => go ids
        | some _ => .error .argumentConflict
    go ((explicitIds m).filter fun id => (c.find id).isSome)

/-- enough iterations for the work list of `unroll_arg_requires` to run dry: every arg is expanded at most once and
pushes at most one item per `requires` entry (`ClapProofs.C03Closure.unroll_complete`) -/
def requiresFuel (c : Cmd) : Nat := (c.args.map fun a => a.requires.length).sum + 2

/-- `gather_requires`: the ids added to the required graph -/
def gatherRequires (c : Cmd) (m : ArgMap) : List Id :=
  (m.filter fun p => p.2.checkExplicit .isPresent).flatMap fun p =>
    match c.find p.1 with
    | some a =>
      unrollArgRequires c (fun (pr : Pred × Id) => if p.2.checkExplicit pr.1 then some pr.2 else none)
        (requiresFuel c) [a.id] [] []
    | none =>
      match c.findGroup p.1 with
      | some g => g.requires
      | none => []

/-- `is_missing_required_ok` -/
def isMissingRequiredOk (c : Cmd) (pot : List (Id × List Id)) (a : Arg) : Option Bool :=
  match gatherConflicts c pot a.id with
  | none => none
  | some (_ :: _) => some true
  | some [] =>
    (c.groupsForArg a.id).foldl (fun (acc : Option Bool) g =>
      match acc, gatherConflicts c pot g with
      | some true, _ => some true
      | some false, some (_ :: _) => some true
      | some false, some [] => some false
      | _, _ => none) (some false)

/-- `fails_arg_required_unless` -/
def failsArgRequiredUnless (a : Arg) (m : ArgMap) : Bool :=
  let exists_ := fun id => m.checkExplicit id .isPresent
  (a.rUnlessAll.isEmpty || !a.rUnlessAll.all exists_) && !a.rUnless.any exists_

/-- the loop over the required graph in `validate_required`: `true` = something required is missing -/
def requiredLoop (c : Cmd) (m : ArgMap) (pot : List (Id × List Id)) (isExclusivePresent : Bool) : List Id → Except EK Bool
  | [] => .ok false
  | r :: rs =>
    if m.checkExplicit r .isPresent then requiredLoop c m pot isExclusivePresent rs else
    match c.find r with
    | some a =>
      match isMissingRequiredOk c pot a with
      | none => .error (.panic "is_missing_required_ok: expect group")
      | some ok => if !isExclusivePresent && !ok then .ok true else requiredLoop c m pot isExclusivePresent rs
    | none =>
      match c.findGroup r with
      | some g =>
        match argsInGroup c g.id with
        | none => .error (.panic "unroll_args_in_group: expect")
        | some members => if !(members.any fun a => m.checkExplicit a .isPresent) then .ok true
                          else requiredLoop c m pot isExclusivePresent rs
      | none => requiredLoop c m pot isExclusivePresent rs

/-- the arg is conditionally required (`required_if_eq*`, `required_unless_present*`) and missing -/
def conditionallyMissing (m : ArgMap) (a : Arg) : Bool :=
  !m.checkExplicit a.id .isPresent &&
  ((a.rIfs.any fun (o, v) => m.checkExplicit o (.equals v)) ||
   ((a.rIfsAll.all fun (o, v) => m.checkExplicit o (.equals v)) && !a.rIfsAll.isEmpty) ||
   ((!a.rUnless.isEmpty || !a.rUnlessAll.isEmpty) && failsArgRequiredUnless a m))

/-- the ids `validate_required` iterates over: the static graph plus what `gather_requires` adds -/
def requiredIds (c : Cmd) (m : ArgMap) : List Id :=
  (gatherRequires c m).foldl (fun acc i => if acc.contains i then acc else acc ++ [i]) (requiredGraph c)

def isExclusivePresent (c : Cmd) (m : ArgMap) : Bool :=
  (explicitIds m).any fun id => ((c.find id).map (·.exclusive)).getD false

/-- `validate_required` -/
def validateRequired (c : Cmd) (m : ArgMap) (pot : List (Id × List Id)) : Except EK Unit :=
  match requiredLoop c m pot (isExclusivePresent c m) (requiredIds c m) with
  | .error e => .error e
  | .ok missing1 =>
    let missing2 := (c.args.any fun a => conditionallyMissing m a) && !isExclusivePresent c m
    if missing1 || missing2 then .error .missingRequiredArgument else .ok ()

/-- `Validator::validate` -/
def validate (c : Cmd) (p : P) : Except EK Unit :=
  let m := p.args
  let hasSubcmd := !p.sub.isEmpty
  match potential c m with
  | none => .error (.panic "gather_arg_direct_conflicts: expect group")
  | some pot =>
    if !hasSubcmd && c.settings.argRequiredElseHelp && (explicitIds m).isEmpty then .error .displayHelpOnMissing
    else if !hasSubcmd && c.settings.subcommandRequired then .error .missingSubcommand
    else match validateConflicts c m pot with
      | .error e => .error e
      | .ok () =>
        if !(c.settings.subcommandNegatesReqs && hasSubcmd) then validateRequired c m pot else .ok ()

end Validator
end Clap
