/-
L3 command definition: the part of `clap_builder::builder::{Command, Arg, ArgGroup}`
that the parser, validator and global propagation read.
Strings (`Id`, names, longs, values) are `Bytes`; a `char` is its UTF-8 bytes.
-/
import ClapModel.Bytes
import ClapModel.Values
namespace Clap

abbrev Id := Bytes

/-- `ValueSource`, ordered: `DefaultValue < EnvVariable < CommandLine` -/
inductive Source | default | env | cmdline
deriving Repr, DecidableEq

def Source.rank : Source → Nat
  | .default => 0 | .env => 1 | .cmdline => 2
def Source.max (a b : Source) : Source := if a.rank ≥ b.rank then a else b
/-- `ValueSource::is_explicit` -/
def Source.isExplicit (s : Source) : Bool := s != .default

inductive Action
  | set | append | setTrue | setFalse | count | help | helpShort | helpLong | version
deriving Repr, DecidableEq

/-- `ValueRange` (`end = none` is `usize::MAX`) -/
structure Range where
  min : Nat
  max : Option Nat
deriving Repr, DecidableEq

namespace Range
def empty : Range := ⟨0, some 0⟩
def single : Range := ⟨1, some 1⟩
def takesValues (r : Range) : Bool := r.max != some 0
def isUnbounded (r : Range) : Bool := r.max.isNone
def isFixed (r : Range) : Bool := r.max == some r.min
def isMultiple (r : Range) : Bool := r.max != some r.min || 1 < r.min
def numValues (r : Range) : Option Nat := if r.isFixed then some r.min else none
def acceptsMore (r : Range) (cur : Nat) : Bool := match r.max with | none => true | some e => cur < e
def maxLt (r : Range) (n : Nat) : Bool := match r.max with | none => false | some e => e < n
end Range

/-- `ArgPredicate` -/
inductive Pred
  | isPresent
  | equals (v : Bytes)
deriving Repr, DecidableEq

/-- value parsers the model knows (`ValueParser`) -/
inductive VP
  | string              -- `StringValueParser` (rejects non-UTF-8)
  | osString            -- `OsStringValueParser`
  | bool                -- `BoolValueParser` (`SetTrue`/`SetFalse`)
  | count               -- `value_parser!(u8)` (`Count`)
  | i64r (lo hi : Values.Bound)
  | possible (pvs : List Values.PossibleValue)
  | nonEmpty            -- `NonEmptyStringValueParser`
deriving Repr, DecidableEq

structure Arg where
  id : Id
  short : Option Bytes := none
  long : Option Bytes := none
  aliases : List Bytes := []
  shortAliases : List Bytes := []
  index : Option Nat := none
  action : Option Action := none
  numVals : Option Range := none
  delim : Option Bytes := none
  terminator : Option Bytes := none
  required : Bool := false
  global : Bool := false
  exclusive : Bool := false
  last : Bool := false
  trailingVarArg : Bool := false
  allowHyphen : Bool := false
  allowNegative : Bool := false
  requireEquals : Bool := false
  ignoreCase : Bool := false
  hide : Bool := false
  defaultVals : List Bytes := []
  defaultMissing : List Bytes := []
  defaultIfs : List (Id × Pred × Option Bytes) := []
  env : Option (Option Bytes) := none          -- `Some((name, value-at-definition-time))`
  blacklist : List Id := []
  overrides : List Id := []
  requires : List (Pred × Id) := []
  rIfs : List (Id × Bytes) := []
  rIfsAll : List (Id × Bytes) := []
  rUnless : List Id := []
  rUnlessAll : List Id := []
  groups : List Id := []
  vp : Option VP := none
deriving Repr, DecidableEq

namespace Arg
def isPositional (a : Arg) : Bool := a.long.isNone && a.short.isNone
def getAction (a : Arg) : Action := a.action.getD .set
def getNumArgs (a : Arg) : Range := a.numVals.getD Range.single
def takesValue (a : Arg) : Bool := a.getNumArgs.takesValues
def isMultipleValues (a : Arg) : Bool := a.getNumArgs.isMultiple
def isMultiple (a : Arg) : Bool := a.isMultipleValues || a.getAction == .append
def minVals (a : Arg) : Nat := a.getNumArgs.min
def getVP (a : Arg) : VP := a.vp.getD .string
end Arg

structure Group where
  id : Id
  args : List Id := []
  required : Bool := false
  multiple : Bool := false
  requires : List Id := []
  conflicts : List Id := []
deriving Repr, DecidableEq

structure Settings where
  argsConflictsWithSubcommands : Bool := false
  subcommandPrecedenceOverArg : Bool := false
  inferLongArgs : Bool := false
  inferSubcommands : Bool := false
  allowExternalSubcommands : Bool := false
  ignoreErrors : Bool := false
  argsOverrideSelf : Bool := false
  dontDelimitTrailingValues : Bool := false
  allowMissingPositional : Bool := false
  subcommandRequired : Bool := false
  argRequiredElseHelp : Bool := false
  subcommandNegatesReqs : Bool := false
  disableHelpFlag : Bool := false
  disableVersionFlag : Bool := false
  disableHelpSubcommand : Bool := false
  noBinaryName : Bool := false
  hasVersion : Bool := false
  /-- `AppSettings::Built`: set by `_build_self`, which is a no-op once it is set -/
  built : Bool := false
  /-- `Command::allow_hyphen_values` / `allow_negative_numbers`: switched on for every value-taking arg OF THIS LEVEL at
  the end of `_build_self` (globals handed down to subcommands are unbuilt clones and do not carry them) -/
  allowHyphenValues : Bool := false
  allowNegativeNumbers : Bool := false
  /-- `Command::trailing_var_arg`: switched on for the positional with the highest index -/
  trailingVarArg : Bool := false
deriving Repr, DecidableEq

inductive Cmd
  | mk (name : Bytes) (aliases : List Bytes) (shortFlag : Option Bytes) (longFlag : Option Bytes)
       (shortFlagAliases : List Bytes) (longFlagAliases : List Bytes)
       (settings : Settings) (args : List Arg) (groups : List Group) (subs : List Cmd)

namespace Cmd
def name : Cmd → Bytes | mk n .. => n
def aliases : Cmd → List Bytes | mk _ a .. => a
def shortFlag : Cmd → Option Bytes | mk _ _ s .. => s
def longFlag : Cmd → Option Bytes | mk _ _ _ l .. => l
def shortFlagAliases : Cmd → List Bytes | mk _ _ _ _ sa .. => sa
def longFlagAliases : Cmd → List Bytes | mk _ _ _ _ _ la .. => la
def settings : Cmd → Settings | mk _ _ _ _ _ _ s .. => s
def args : Cmd → List Arg | mk _ _ _ _ _ _ _ a .. => a
def groups : Cmd → List Group | mk _ _ _ _ _ _ _ _ g _ => g
def subs : Cmd → List Cmd | mk _ _ _ _ _ _ _ _ _ s => s

def withArgs : Cmd → List Arg → Cmd | mk n a s l sa la st _ g su, args => mk n a s l sa la st args g su
def withGroups : Cmd → List Group → Cmd | mk n a s l sa la st ar _ su, g => mk n a s l sa la st ar g su
def withSubs : Cmd → List Cmd → Cmd | mk n a s l sa la st ar g _, su => mk n a s l sa la st ar g su
def withSettings : Cmd → Settings → Cmd | mk n a s l sa la _ ar g su, st => mk n a s l sa la st ar g su

/-- `find` -/
def find (c : Cmd) (id : Id) : Option Arg := c.args.find? fun a => a.id == id
def findGroup (c : Cmd) (id : Id) : Option Group := c.groups.find? fun g => g.id == id
def positionals (c : Cmd) : List Arg := c.args.filter Arg.isPositional
def hasPositionals (c : Cmd) : Bool := !c.positionals.isEmpty
def hasSubcommands (c : Cmd) : Bool := !c.subs.isEmpty
/-- `aliases_to` -/
def aliasesTo (c : Cmd) (n : Bytes) : Bool := c.name == n || c.aliases.contains n
def findSubcommand (c : Cmd) (n : Bytes) : Option Cmd := c.subs.find? fun s => s.aliasesTo n
def shortFlagAliasesTo (c : Cmd) (f : Bytes) : Bool := c.shortFlag == some f || c.shortFlagAliases.contains f
def longFlagAliasesTo (c : Cmd) (f : Bytes) : Bool :=
  match c.longFlag with
  | some l => l == f || c.longFlagAliases.contains f
  | none => c.longFlagAliases.contains f
def findShortSubcmd (c : Cmd) (f : Bytes) : Option Bytes := (c.subs.find? fun s => s.shortFlagAliasesTo f).map name
def findLongSubcmd (c : Cmd) (f : Bytes) : Option Bytes := (c.subs.find? fun s => s.longFlagAliasesTo f).map name
/-- `groups_for_arg` -/
def groupsForArg (c : Cmd) (id : Id) : List Id := (c.groups.filter fun g => g.args.contains id).map (·.id)
def allSubcommandNames (c : Cmd) : List Bytes := c.subs.flatMap fun s => s.name :: s.aliases
end Cmd

mutual
/-- height of the subcommand tree -/
def Cmd.height : Cmd → Nat
  | .mk _ _ _ _ _ _ _ _ _ subs => 1 + Cmd.heightList subs
def Cmd.heightList : List Cmd → Nat
  | [] => 0
  | c :: cs => max c.height (Cmd.heightList cs)
end

/-! ### `MKeyMap` keys (built by `MKeyMap::_build`) -/
inductive Key
  | short (c : Bytes) | long (l : Bytes) | pos (n : Nat)
deriving Repr, DecidableEq

/-- `append_keys` -/
def Arg.keys (a : Arg) : List Key :=
  match a.index with
  | some i => [.pos i]
  | none =>
    (a.short.toList.map Key.short) ++ (a.long.toList.map Key.long) ++
    (a.shortAliases.map Key.short) ++ (a.aliases.map Key.long)

/-- `MKeyMap::get`: the first arg (in key order = arg order, keys within an arg in `append_keys` order) holding the key -/
def Cmd.getKey (c : Cmd) (k : Key) : Option Arg := c.args.find? fun a => a.keys.contains k
def Cmd.getLong (c : Cmd) (l : Bytes) : Option Arg := c.getKey (.long l)
def Cmd.getShort (c : Cmd) (s : Bytes) : Option Arg := c.getKey (.short s)
def Cmd.getPos (c : Cmd) (n : Nat) : Option Arg := c.getKey (.pos n)
def Cmd.containsShort (c : Cmd) (s : Bytes) : Bool := (c.getShort s).isSome
def Cmd.positionalCount (c : Cmd) : Nat := (c.args.flatMap Arg.keys).countP fun k => match k with | .pos _ => true | _ => false

end Clap
