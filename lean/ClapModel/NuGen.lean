/-
The nushell generator (`clap_complete_nushell/src/lib.rs`): inside `module completions { … }` one
`export extern` block per command of the tree (every depth), preceded by the `nu-complete` definitions of the
level's possible values; each block lists the level's arguments one spelling per line.
Text is `List Char`; the only escaper is the extracted newline flattening.
-/
import ClapModel.ShellLex
namespace Clap
namespace NuGen
open Shell

def s (x : String) : Str := x.toList

structure NArg where
  id : Str
  positional : Bool := false
  append : Bool := false           -- `ArgAction::Append`
  required : Bool := false
  shorts : List Str := []          -- `get_short_and_visible_aliases` (empty = `None`)
  longs : List Str := []
  takes : Bool := false
  pathHint : Bool := false         -- AnyPath / FilePath / DirPath / ExecutablePath
  pvs : List Str := []             -- `Arg::get_possible_values` names (hidden ones included)
  help : Option Str := none
deriving Repr

inductive NNode
  | mk (binName : Str) (about : Option Str) (args : List NArg) (subs : List NNode)
deriving Repr

namespace NNode
def binName : NNode → Str | mk b .. => b
def about : NNode → Option Str | mk _ a .. => a
def args : NNode → List NArg | mk _ _ a _ => a
def subs : NNode → List NNode | mk _ _ _ su => su
end NNode

/-- `single_line_styled_str` -/
def singleLine (t : Str) : Str := applyChain Gen.nuSingleLine t

def byteLen (t : Str) : Nat := (t.map Char.utf8Size).sum

/-- the `: type@"completer"` part of `append_value_completion_and_help`, given the text of the line so far -/
def typed (a : NArg) (name : Str) (line : Str) : Str :=
  if a.takes then
    line ++ (s ": " ++ (if a.pathHint then s "path" else s "string") ++
      (if a.pvs.isEmpty then [] else s "@\"nu-complete " ++ name ++ s " " ++ a.id ++ s "\""))
  else line

/-- `append_value_completion_and_help` -/
def valueAndHelp (a : NArg) (name : Str) (line : Str) : Str :=
  let line1 := typed a name line
  (match a.help with
    | some h => line1 ++ (List.replicate (max (30 - byteLen line1) 1) ' ' ++ s "# " ++ singleLine h)
    | none => line1) ++ s "\n"

/-- `append_value_completion_defs` -/
def completionDefs (a : NArg) (name : Str) : Str :=
  if a.pvs.isEmpty then [] else
  s "  def \"nu-complete " ++ name ++ s " " ++ a.id ++ s "\" [] {" ++ s "\n    [" ++
    (a.pvs.flatMap fun v => if v.any Char.isWhitespace then s " \"\\\"" ++ v ++ s "\\\"\"" else s " \"" ++ v ++ s "\"") ++
    s " ]\n  }\n\n"

/-- `append_argument` -/
def argLines (a : NArg) (name : Str) : Str :=
  if a.positional then
    valueAndHelp a name (if a.append then s "    ..." ++ a.id else s "    " ++ a.id ++ (if a.required then [] else s "?"))
  else
    match a.shorts, a.longs with
    | sh :: shs, l :: ls =>
      valueAndHelp a name (s "    --" ++ l ++ s "(-" ++ sh ++ s ")") ++
      (ls.flatMap fun l' => valueAndHelp a name (s "    --" ++ l')) ++
      (shs.flatMap fun sh' => valueAndHelp a name (s "    -" ++ sh'))
    | shs, [] => shs.flatMap fun sh' => valueAndHelp a name (s "    -" ++ sh')
    | [], ls => ls.flatMap fun l' => valueAndHelp a name (s "    --" ++ l')

/-- the block of one command (not its subcommands) -/
def block (n : NNode) (isSub : Bool) : Str :=
  (n.args.flatMap fun a => completionDefs a n.binName) ++
  (match n.about with | some a => s "  # " ++ singleLine a ++ s "\n" | none => []) ++
  (if isSub then s "  export extern \"" ++ n.binName ++ s "\" [\n" else s "  export extern " ++ n.binName ++ s " [\n") ++
  (n.args.flatMap fun a => argLines a n.binName) ++ s "  ]\n\n"

mutual
/-- `generate_completion(…, is_subcommand = true)`: the block, then every subcommand's -/
def genSub : NNode → Str
  | .mk b a args subs => block (.mk b a args subs) true ++ genSubs subs
def genSubs : List NNode → Str
  | [] => []
  | x :: xs => genSub x ++ genSubs xs
end

/-- `Nushell::generate` -/
def script (root : NNode) : Str :=
  s "module completions {\n\n" ++ block root false ++ genSubs root.subs ++ s "}\n\nexport use completions *\n"

end NuGen
end Clap
