/-
The fish generator (`clap_complete/src/aot/shells/fish.rs`): one `complete -c <bin> …` line per option, flag and
subcommand name of every level down to two levels below the root (deeper levels are not generated: the source's
own `HACK`), each guarded by a `-n "<condition>"` that names the path; plus three helper functions when the root
has subcommands.  Text is `List Char`; the escapers are the extracted chains.
-/
import ClapModel.ShellLex
namespace Clap
namespace FishGen
open Shell

def s (x : String) : Str := x.toList

/-- `ValueHint`, as far as `value_completion` distinguishes it -/
inductive Hint | unknown | path | dir | command | user | host | other
deriving Repr, DecidableEq

structure FOpt where
  shorts : List Str := []          -- `get_short_and_visible_aliases`
  longs : List Str := []           -- `get_long_and_visible_aliases`
  help : Option Str := none
  takes : Bool := false            -- `get_opts` vs `utils::flags`
  pvs : Option (List (Str × Str × Bool)) := none   -- `utils::possible_values`: (name, help, hidden)
  hint : Hint := .unknown
  short1 : Option Str := none      -- `get_short` / `get_long` (primary spellings, for the optspecs)
  long1 : Option Str := none
deriving Repr

inductive FNode
  | mk (names : List Str) (about : Option Str) (opts : List FOpt) (hasPos : Bool) (subs : List FNode)
deriving Repr

namespace FNode
def names : FNode → List Str | mk n .. => n
def about : FNode → Option Str | mk _ a .. => a
def opts : FNode → List FOpt | mk _ _ o .. => o
def hasPos : FNode → Bool | mk _ _ _ p _ => p
def subs : FNode → List FNode | mk _ _ _ _ su => su
end FNode

/-- `escape_string(s, escape_comma)` -/
def escapeString (x : Str) (comma : Bool) : Str :=
  let y := applyChain Gen.fishEscapeString x
  if comma then applyChain Gen.fishEscapeComma y else y

/-- `escape_help` -/
def escapeHelp (h : Str) : Str := escapeString (applyChain Gen.fishHelpPre h) false

/-- `escape_name` -/
def escapeName (n : Str) : Str := n.map fun c => if c == '-' then '_' else c

/-- `value_completion` -/
def valueCompletion (o : FOpt) : Str :=
  if !o.takes then [] else
  match o.pvs with
  | some pvs =>
    s " -r -f -a \"" ++
      (s "\n").intercalate ((pvs.filter fun pv => !pv.2.2).map fun pv => escapeString pv.1 true ++ s "\\t'" ++ escapeHelp pv.2.1 ++ s "'") ++ s "\""
  | none =>
    match o.hint with
    | .unknown => s " -r"
    | .path => s " -r -F"
    | .dir => s " -r -f -a \"(__fish_complete_directories)\""
    | .command => s " -r -f -a \"(__fish_complete_command)\""
    | .user => s " -r -f -a \"(__fish_complete_users)\""
    | .host => s " -r -f -a \"(__fish_print_hostnames)\""
    | .other => s " -r -f"

/-- the ` -s x … -l long … -d 'help'` part of an option's or flag's line -/
def optSpells (o : FOpt) : Str :=
  (o.shorts.flatMap fun sh => s " -s " ++ sh) ++ (o.longs.flatMap fun l => s " -l " ++ escapeString l false) ++
  (match o.help with | some h => s " -d '" ++ escapeHelp h ++ s "'" | none => [])

def optLine (basic : Str) (o : FOpt) : Str := basic ++ optSpells o ++ valueCompletion o ++ s "\n"
def flagLine (basic : Str) (o : FOpt) : Str := basic ++ optSpells o ++ s "\n"

def subNames (n : FNode) : List Str := n.subs.flatMap FNode.names

/-- the `-n "<condition>"` of a level; `none` = the level is too deep to be generated -/
def condition (needsFn usingFn : Str) (parents : List Str) (n : FNode) : Option Str :=
  match parents with
  | [] => some (if n.subs.isEmpty then [] else s " -n \"" ++ needsFn ++ s "\"")
  | [c] =>
    some (s " -n \"" ++ usingFn ++ s " " ++ c ++ (if n.subs.isEmpty then [] else s "; and not __fish_seen_subcommand_from") ++
      ((subNames n).flatMap fun nm => s " " ++ nm) ++ s "\"")
  | [c, sub] => some (s " -n \"" ++ usingFn ++ s " " ++ c ++ s "; and __fish_seen_subcommand_from " ++ sub ++ s "\"")
  | _ => none

/-- the lines of one level (not its sub-levels) -/
def levelLines (bin needsFn usingFn : Str) (parents : List Str) (n : FNode) : Str :=
  match condition needsFn usingFn parents n with
  | none => []
  | some cond =>
    let basic := s "complete -c " ++ bin ++ cond
    let basic2 := if n.hasPos then basic else basic ++ s " -f"
    ((n.opts.filter (·.takes)).flatMap (optLine basic)) ++ ((n.opts.filter fun o => !o.takes).flatMap (flagLine basic)) ++
    (n.subs.flatMap fun sc => sc.names.flatMap fun nm =>
      basic2 ++ s " -a \"" ++ nm ++ s "\"" ++ (match sc.about with | some a => s " -d '" ++ escapeHelp a ++ s "'" | none => []) ++ s "\n")

mutual
/-- `gen_fish_inner` -/
def genInner (bin needsFn usingFn : Str) (parents : List Str) : FNode → Str
  | .mk names about opts hasPos subs =>
    -- beyond two parents the source returns at once: nothing below is generated either
    if parents.length > 2 then [] else
    levelLines bin needsFn usingFn parents (.mk names about opts hasPos subs) ++ genSubs bin needsFn usingFn parents subs
def genSubs (bin needsFn usingFn : Str) (parents : List Str) : List FNode → Str
  | [] => []
  | sc :: rest => genNames bin needsFn usingFn parents sc sc.names ++ genSubs bin needsFn usingFn parents rest
def genNames (bin needsFn usingFn : Str) (parents : List Str) (sc : FNode) : List Str → Str
  | [] => []
  | nm :: rest => genInner bin needsFn usingFn (parents ++ [nm]) sc ++ genNames bin needsFn usingFn parents sc rest
end

/-- the optspec line of `gen_subcommand_helpers` -/
def optspecs (root : FNode) : Str :=
  root.opts.flatMap fun o =>
    s " " ++ (o.short1.getD []) ++ (match o.long1 with | some l => (if o.short1.isSome then s "/" else []) ++ escapeString l false | none => []) ++
    (if o.takes then s "=" else [])

def helpers (name : Str) (root : FNode) (needsFn usingFn : Str) : Str :=
  let ofn := s "__fish_" ++ name ++ s "_global_optspecs"
  s "# Print an optspec for argparse to handle cmd's options that are independent of any subcommand.\nfunction " ++ ofn ++
  s "\n\tstring join \\n" ++ optspecs root ++ s "\nend\n\nfunction " ++ needsFn ++
  s "\n\t# Figure out if the current invocation already has a command.\n\tset -l cmd (commandline -opc)\n\tset -e cmd[1]\n\targparse -s (" ++ ofn ++
  s ") -- $cmd 2>/dev/null\n\tor return\n\tif set -q argv[1]\n\t\t# Also print the command, so this can be used to figure out what it is.\n\t\techo $argv[1]\n\t\treturn 1\n\tend\n\treturn 0\nend\n\nfunction " ++
  usingFn ++ s "\n\tset -l cmd (" ++ needsFn ++ s ")\n\ttest -z \"$cmd\"\n\tand return 1\n\tcontains -- $cmd[1] $argv\nend\n\n"

/-- `Fish::generate` -/
def script (bin : Str) (root : FNode) : Str :=
  let name := escapeName bin
  if root.subs.isEmpty then genInner bin (s "__fish_use_subcommand") (s "__fish_seen_subcommand_from") [] root
  else
    let needsFn := s "__fish_" ++ name ++ s "_needs_command"
    let usingFn := s "__fish_" ++ name ++ s "_using_subcommand"
    helpers name root needsFn usingFn ++ genInner bin needsFn usingFn [] root

end FishGen
end Clap
