/-
L4 help layout: section assembly, left column, `longest`, padding and the
next-line decision of `clap_builder/src/output/help_template.rs`
(`write_all_args`, `write_args`, `write_arg`, `short`, `long`, `align_to_about`,
`will_args_wrap`, `arg_next_line_help`, `spec_vals`, `write_subcommands`, `subcmd`).
Constants, visibility predicates and the width/padding arithmetic come from
`Gen/HelpConsts.lean`, re-extracted from the source on every run. Every `usize`
subtraction is checked (`none` = the debug-build panic / release wrap-around).
-/
import ClapModel.Gen.HelpConsts
namespace Clap
namespace Help
open Gen

def checkedSub (a b : Nat) : Option Nat := if b ≤ a then some (a - b) else none

/-! ### sections (`write_all_args`) -/

inductive Kind
  | positional          -- "Arguments"
  | options             -- "Options"
  | custom (h : Bytes)  -- `help_heading`
deriving Repr, DecidableEq

def sectionOf (a : HArg) : Kind :=
  match a.heading with
  | some h => .custom h
  | none => if a.isPositional then .positional else .options

/-- `FlatSet` of the custom headings, in first-occurrence order -/
def customHeadings (args : List HArg) : List Bytes :=
  (args.filterMap (·.heading)).foldl (fun acc h => if acc.contains h then acc else acc ++ [h]) []

def membersOf (useLong : Bool) (args : List HArg) (k : Kind) : List HArg :=
  args.filter fun a => sectionOf a == k && shouldShowArg useLong a

/-- the arg sections in the order they are written; empty ones are skipped -/
def sections (useLong : Bool) (args : List HArg) : List (Kind × List HArg) :=
  (([Kind.positional, Kind.options] ++ (customHeadings args).map Kind.custom).map fun k => (k, membersOf useLong args k)).filter
    fun s => !s.2.isEmpty

/-! ### the left column (`write_arg`: TAB, `short`, `long`, suffix) -/

def shortPart (a : HArg) : Bytes :=
  match a.short with
  | some s => 45 :: s
  | none => if a.long.isSome then sp 4 else []

def longPart (a : HArg) : Bytes :=
  match a.long with
  | some l => (if a.short.isSome then [44, 32] else []) ++ [45, 45] ++ l
  | none => []

def leftColumn (a : HArg) : Bytes := sp tabWidth ++ shortPart a ++ longPart a ++ argSuffix a

/-! ### `longest` (`write_args`) -/

def actualWidth (a : HArg) : Nat :=
  if longestFilter a then (if a.isPositional then widthFilteredPos a else widthFilteredOpt a) else widthUnfiltered a

/-- over the args of one section that pass `should_show_arg` -/
def longest (useLong : Bool) (args : List HArg) : Nat :=
  (args.filter (shouldShowArg useLong)).foldl (fun m a => max m (actualWidth a)) longestInit

/-! ### `spec_vals` (defaults and inline possible values; env and aliases are not modelled) -/

def useLongPv (useLong : Bool) (a : HArg) : Bool := useLong && a.pvs.any fun pv => !pv.hide && pv.hasHelp

def visiblePvNames (a : HArg) : List Bytes := (a.pvs.filter (!·.hide)).map (·.name)

def b_default : Bytes := [91, 100, 101, 102, 97, 117, 108, 116, 58, 32]  -- "[default: "
def b_possible : Bytes := [91, 112, 111, 115, 115, 105, 98, 108, 101, 32, 118, 97, 108, 117, 101, 115, 58, 32] -- "[possible values: "

def specVals (useLong : Bool) (a : HArg) : Bytes :=
  let d := if a.takesValue && !a.hideDefault && !a.defaults.isEmpty then [b_default ++ intercalateB [32] a.defaults ++ [93]] else []
  let p := if !a.hidePossibleValues && !useLongPv useLong a && !a.pvs.isEmpty
           then [b_possible ++ intercalateB [44, 32] (visiblePvNames a) ++ [93]] else []
  intercalateB (if useLong then [10] else [32]) (d ++ p)

/-- `display_width(spec_vals)`: defaults are ASCII in the tie, possible-value names carry their own display width -/
def specValsW (useLong : Bool) (a : HArg) : Nat :=
  let d := if a.takesValue && !a.hideDefault && !a.defaults.isEmpty then some ((b_default ++ intercalateB [32] a.defaults ++ [93]).length) else none
  let vis := a.pvs.filter (!·.hide)
  let p := if !a.hidePossibleValues && !useLongPv useLong a && !a.pvs.isEmpty
           then some (b_possible.length + (vis.map (·.w)).sum + 2 * (vis.length - 1) + 1) else none
  match d, p with
  | some x, some y => x + (if useLong then 0 else 1) + y
  | some x, none => x
  | none, some y => y
  | none, none => 0

/-! ### next-line decision (`will_args_wrap`, `arg_next_line_help`) -/

/-- `taken as f32 / term_w as f32 > 0.40` for the magnitudes that occur (ratios with small denominators) -/
def ratioOver40 (taken termW : Nat) : Bool := decide (taken * 5 > termW * 2)

/-- `termW = none` is `usize::MAX` (width 0 = unlimited) -/
def forceNextLine (termW : Option Nat) (hW taken : Nat) : Bool :=
  match termW with
  | none => false
  | some w => decide (w ≥ taken) && ratioOver40 taken w && decide (hW > w - taken)

def argNextLineHelp (cmdNextLine useLong : Bool) (termW : Option Nat) (a : HArg) (longest : Nat) : Bool :=
  if cmdNextLine || a.nextLineHelp || useLong then true
  else forceNextLine termW (a.helpW + specValsW useLong a) (longest + tabWidth * 2)

def willArgsWrap (cmdNextLine useLong : Bool) (termW : Option Nat) (args : List HArg) (longest : Nat) : Bool :=
  (args.filter (shouldShowArg useLong)).any fun a => argNextLineHelp cmdNextLine useLong termW a longest

/-! ### padding (`align_to_about`) -/

def alignPadding (useLong nextLine : Bool) (a : HArg) (longest : Nat) : Option Nat :=
  if useLong || nextLine then some 0
  else if !a.isPositional then checkedSub (longest + (if a.long.isSome then alignPadLong else alignPadShortOnly)) (alignSelfLenOpt a)
  else checkedSub (longest + alignPadPos) (alignSelfLenPos a)

/-! ### subcommands (`write_subcommands`, `subcmd`) -/

def subDisplay (sc : HSub) : Bytes :=
  sc.name ++ (match sc.shortFlag with | some s => [44, 32, 45] ++ s | none => []) ++
    (match sc.longFlag with | some l => [44, 32, 45, 45] ++ l | none => [])

/-- `Command::has_visible_subcommands`: the generated `help` subcommand alone does not make a "Commands" section -/
def hasVisibleSubcommands (subs : List HSub) : Bool :=
  subs.any fun sc => sc.name != [104, 101, 108, 112] && !sc.hide

def subLongest (subs : List HSub) : Nat :=
  (subs.filter shouldShowSubcommand).foldl (fun m sc => max m (subDisplay sc).length) longestInit

def subsWrap (cmdNextLine : Bool) (termW : Option Nat) (subs : List HSub) (longest : Nat) : Bool :=
  (subs.filter shouldShowSubcommand).any fun sc =>
    if cmdNextLine then true else forceNextLine termW (sc.aboutW + sc.specW) (longest + tabWidth * 2)

def subcmdPadding (nextLine : Bool) (sc : HSub) (longest : Nat) : Option Nat :=
  if nextLine then some 0 else checkedSub (longest + subcmdPad) (subDisplay sc).length

/-! ### the possible-values column of long help -/

/-- `possible_vals.iter().filter(!hide).map(|f| display_width(f.get_name())).max().expect(..)`: `none` = the `expect` fails -/
def pvLongest (a : HArg) : Option Nat :=
  match a.pvs.filter (!·.hide) with
  | [] => none
  | p :: ps => some (ps.foldl (fun m x => max m x.w) p.w)

/-- `longest - display_width(name)` for one listed value -/
def pvPadding (a : HArg) (pv : PV) : Option Nat :=
  match pvLongest a with
  | none => none
  | some l => checkedSub l pv.w

/-! ### one rendered section: what the tie compares with the real output -/

structure Line where
  id : Bytes
  left : Bytes
  pad : Option Nat        -- `none` = subtraction underflow
deriving Repr

structure Section where
  kind : Kind
  longest : Nat
  nextLine : Bool
  lines : List Line
deriving Repr

def renderSection (cmdNextLine useLong : Bool) (termW : Option Nat) (k : Kind) (members : List HArg) : Section :=
  let l := longest useLong members
  let nl := willArgsWrap cmdNextLine useLong termW members l
  { kind := k, longest := l, nextLine := nl,
    lines := members.map fun a => { id := a.id, left := leftColumn a, pad := alignPadding useLong nl a l } }

def renderSections (cmdNextLine useLong : Bool) (termW : Option Nat) (args : List HArg) : List Section :=
  (sections useLong args).map fun s => renderSection cmdNextLine useLong termW s.1 s.2

end Help
end Clap
