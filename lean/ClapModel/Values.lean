/-
L2 values: `RangedI64ValueParser` / `RangedU64ValueParser`, the bool parsers,
`PossibleValue::matches`, `PossibleValuesParser`, `EnumValueParser`
(`clap_builder/src/builder/{value_parser,possible_value}.rs`,
`util/str_to_bool.rs`).  Literal tables and the integer factories come from
`ClapModel/Gen` (re-extracted from the source on every run).
-/
import ClapModel.Utf8
import ClapModel.Gen.BoolLits
import ClapModel.Gen.IntFactories
namespace Clap
namespace Values

/-- how a value parser rejects -/
inductive VErr
  | invalidUtf8 | valueValidation | invalidValue
deriving Repr, DecidableEq

inductive VRes (α : Type)
  | ok (a : α)
  | err (e : VErr)
deriving Repr, DecidableEq

def VRes.isOk {α : Type} : VRes α → Bool
  | .ok _ => true
  | .err _ => false

/-! ### integers -/

/-- decimal value of a non-empty run of ASCII digits -/
def digitsVal : Nat → Bytes → Option Nat
  | acc, [] => some acc
  | acc, c :: cs => if 0x30 ≤ c ∧ c ≤ 0x39 then digitsVal (acc * 10 + (c.toNat - 0x30)) cs else none

/-- `<i64 as FromStr>` grammar: optional `+`/`-`, then at least one digit
(`core::num::from_str_radix` with `is_signed = true`) -/
def intGrammarSigned : Bytes → Option Int
  | [] => none
  | [0x2B] => none
  | [0x2D] => none
  | 0x2B :: ds => (digitsVal 0 ds).map Int.ofNat
  | 0x2D :: ds => (digitsVal 0 ds).map fun n => - Int.ofNat n
  | ds => (digitsVal 0 ds).map Int.ofNat

/-- `<u64 as FromStr>` grammar: optional `+`, then at least one digit; a `-` is an invalid digit -/
def intGrammarUnsigned : Bytes → Option Int
  | [] => none
  | [0x2B] => none
  | [0x2D] => none
  | 0x2B :: ds => (digitsVal 0 ds).map Int.ofNat
  | ds => (digitsVal 0 ds).map Int.ofNat

def i64Min : Int := -(2^63)
def i64Max : Int := 2^63 - 1
def u64Max : Int := 2^64 - 1

def parseI64 (s : Bytes) : Option Int :=
  match intGrammarSigned s with
  | some v => if i64Min ≤ v ∧ v ≤ i64Max then some v else none
  | none => none

def parseU64 (s : Bytes) : Option Int :=
  match intGrammarUnsigned s with
  | some v => if 0 ≤ v ∧ v ≤ u64Max then some v else none
  | none => none

/-- `std::ops::Bound` -/
inductive Bound
  | included (i : Int) | excluded (i : Int) | unbounded
deriving Repr, DecidableEq

/-- `RangeBounds::contains` -/
def boundsContain (lo hi : Bound) (v : Int) : Bool :=
  (match lo with | .included a => a ≤ v | .excluded a => a < v | .unbounded => true) &&
  (match hi with | .included b => v ≤ b | .excluded b => v < b | .unbounded => true)

/-- a ranged integer parser: parse width, bounds, target type's `MIN..=MAX` -/
structure Ranged where
  viaU64 : Bool
  lo : Bound
  hi : Bound
  tmin : Int
  tmax : Int
deriving Repr, DecidableEq

/-- `.range(r)`: a specified end replaces the stored one, an unbounded end keeps it -/
def Ranged.range (p : Ranged) (lo hi : Bound) : Ranged :=
  { p with lo := (match lo with | .unbounded => p.lo | b => b),
           hi := (match hi with | .unbounded => p.hi | b => b) }

/-- `value.parse::<i64>()` / `value.parse::<u64>()` -/
def Ranged.readInt (p : Ranged) (raw : Bytes) : Option Int :=
  if p.viaU64 then parseU64 raw else parseI64 raw

/-- the bounds test, then `try_into` the target type -/
def Ranged.check (p : Ranged) (v : Int) : VRes Int :=
  if !boundsContain p.lo p.hi v then .err .valueValidation
  else if p.tmin ≤ v ∧ v ≤ p.tmax then .ok v else .err .valueValidation

/-- `parse_ref`: UTF-8 → `parse::<i64|u64>` → bounds → `try_into` -/
def Ranged.parse (p : Ranged) (raw : Bytes) : VRes Int :=
  if !Utf8.valid raw then .err .invalidUtf8 else
  match p.readInt raw with
  | none => .err .valueValidation
  | some v => p.check v

def shapeBound (s : Gen.BoundShape) (v : Int) : Bound :=
  match s with
  | .included => .included v
  | .excluded => .excluded v
  | .unbounded => .unbounded

/-- `RangedI64ValueParser::new()` / `RangedU64ValueParser::new()` for a target type -/
def Ranged.new (viaU64 : Bool) (tmin tmax : Int) : Ranged := ⟨viaU64, .unbounded, .unbounded, tmin, tmax⟩

/-- the parser an `impl ValueParserFactory for <int>` builds (table from the source) -/
def ofFactory (f : Gen.IntFactory) : Ranged :=
  (Ranged.new f.viaU64 f.tmin f.tmax).range (shapeBound f.lo f.tmin) (shapeBound f.hi f.tmax)

/-- `ValueParser::from(range)` for the six `std::ops` range types over `i64` -/
def ofFromRange (r : Gen.FromRange) (s e : Int) : Ranged :=
  (Ranged.new false i64Min i64Max).range (shapeBound r.lo s) (shapeBound r.hi e)

/-! ### booleans -/

/-- `char::to_lowercase` restricted to what can matter for an ASCII literal
table: ASCII letters, and U+212A KELVIN SIGN (the only non-ASCII scalar whose
lowercase is ASCII).  Works on UTF-8 bytes. -/
def lowerAscii (b : UInt8) : UInt8 := if 0x41 ≤ b ∧ b ≤ 0x5A then b + 0x20 else b

def toLowercase : Bytes → Bytes
  | 0xE2 :: 0x84 :: 0xAA :: rest => 0x6B :: toLowercase rest
  | b :: rest => lowerAscii b :: toLowercase rest
  | [] => []

/-- `str_to_bool` -/
def strToBool (s : Bytes) : Option Bool :=
  let pat := toLowercase s
  if Gen.trueLiterals.contains pat then some true
  else if Gen.falseLiterals.contains pat then some false
  else none

/-- `"true"` / `"false"` as bytes (string literals do not reduce in the kernel) -/
def bTrue : Bytes := [0x74, 0x72, 0x75, 0x65]
def bFalse : Bytes := [0x66, 0x61, 0x6C, 0x73, 0x65]

def boolParser (raw : Bytes) : VRes Bool :=
  if raw == bTrue then .ok true
  else if raw == bFalse then .ok false
  else .err .invalidValue

def boolishParser (raw : Bytes) : VRes Bool :=
  if !Utf8.valid raw then .err .invalidUtf8 else
  match strToBool raw with
  | some b => .ok b
  | none => .err .valueValidation

def falseyParser (raw : Bytes) : VRes Bool :=
  if !Utf8.valid raw then .err .invalidUtf8 else
  if raw.isEmpty then .ok false else .ok ((strToBool raw).getD true)

/-! ### possible values -/

structure PossibleValue where
  name : Bytes
  aliases : List Bytes
  hide : Bool := false
deriving Repr, DecidableEq

/-- ASCII case-insensitive equality (`eq_ignore_ascii_case`; with the `unicode`
feature the code uses `unicase::eq`, which agrees on ASCII strings) -/
def eqIgnoreAsciiCase (a b : Bytes) : Bool := a.map lowerAscii == b.map lowerAscii

/-- `PossibleValue::matches` -/
def PossibleValue.matches (p : PossibleValue) (value : Bytes) (ignoreCase : Bool) : Bool :=
  if ignoreCase then (p.name :: p.aliases).any fun n => eqIgnoreAsciiCase n value
  else (p.name :: p.aliases).any fun n => n == value

/-- `PossibleValuesParser::parse`: the accepted value is the input string itself -/
def possibleValuesParser (pvs : List PossibleValue) (ignoreCase : Bool) (raw : Bytes) : VRes Bytes :=
  if !Utf8.valid raw then .err .invalidUtf8 else
  if pvs.any fun v => v.matches raw ignoreCase then .ok raw else .err .invalidValue

/-- `EnumValueParser::parse_ref`: index of the first variant whose possible value matches -/
def enumValueParser (variants : List PossibleValue) (ignoreCase : Bool) (raw : Bytes) : VRes Nat :=
  if !Utf8.valid raw then .err .invalidValue else   -- sic: `invalid_value`, not `invalid_utf8`
  match variants.findIdx? fun v => v.matches raw ignoreCase with
  | some i => .ok i
  | none => .err .invalidValue

end Values
end Clap
