/-
Quoting-state scanners for the shells the ahead-of-time completion generators
target, as far as script SOURCING is concerned: which characters are inside a
string literal or a comment, and where a quoted context would expand `$…`.
These are models of external programs (fish, zsh, PowerShell, elvish, nushell)
written from their documented lexical rules; they are part of the trusted base.
The escapers are the `.replace` chains extracted into `Gen/Escapes.lean`.
-/
import ClapModel.Gen.Escapes
namespace Clap
namespace Shell

abbrev Str := List Char

/-- one `.replace(c, rep)` -/
def replace1 (c : Char) (rep : Str) (s : Str) : Str := s.flatMap fun x => if x == c then rep else [x]

/-- a chain of `.replace` calls, applied in source order -/
def applyChain (chain : List (Char × Str)) (s : Str) : Str := chain.foldl (fun acc p => replace1 p.1 p.2 acc) s

inductive St
  | n (atWordStart : Bool)   -- outside any quote
  | nBs                      -- outside, after an escape character
  | sq                       -- inside a single-quoted string
  | sqBs                     -- fish: inside single quotes, after a backslash
  | sqQ                      -- PowerShell / elvish: inside single quotes, after a quote that may be the first of a doubled pair
  | dq                       -- inside a double-quoted string
  | dqBs                     -- inside double quotes, after the escape character
  | bt                       -- nushell: inside a backtick string
  | cm                       -- inside a `#` comment
deriving Repr, DecidableEq

def isWs (c : Char) : Bool := c == ' ' || c == '\t' || c == '\n'

/-- the Bool is `true` when this character starts an expansion inside a quoted context -/
abbrev Step := St → Char → St × Bool

def fishNeutral (ws : Bool) (c : Char) : St × Bool :=
  if c == '\'' then (.sq, false) else if c == '"' then (.dq, false) else if c == '\\' then (.nBs, false)
  else if c == '#' && ws then (.cm, false) else (.n (isWs c), false)

/-- fish: `\\` and `\'` are the only escapes inside single quotes; inside double quotes a backslash
escapes the next character and `$` starts variable expansion / `$(…)` command substitution -/
def fishStep : Step
  | .n ws, c => fishNeutral ws c
  | .nBs, _ => (.n false, false)
  | .sq, c => if c == '\\' then (.sqBs, false) else if c == '\'' then (.n false, false) else (.sq, false)
  | .sqBs, _ => (.sq, false)
  | .sqQ, c => fishNeutral false c
  | .dq, c => if c == '\\' then (.dqBs, false) else if c == '"' then (.n false, false) else (.dq, c == '$')
  | .dqBs, _ => (.dq, false)
  | .bt, c => fishNeutral false c
  | .cm, c => if c == '\n' then (.n true, false) else (.cm, false)

/-- zsh (and bash): nothing is special inside single quotes but the closing quote; inside double
quotes `\` escapes and `$`, backtick expand -/
def zshStep : Step
  | .n ws, c => fishNeutral ws c
  | .nBs, _ => (.n false, false)
  | .sq, c => if c == '\'' then (.n false, false) else (.sq, false)
  | .sqBs, _ => (.sq, false)
  | .sqQ, c => fishNeutral false c
  | .dq, c => if c == '\\' then (.dqBs, false) else if c == '"' then (.n false, false) else (.dq, c == '$' || c == '`')
  | .dqBs, _ => (.dq, false)
  | .bt, c => fishNeutral false c
  | .cm, c => if c == '\n' then (.n true, false) else (.cm, false)

/-- the characters PowerShell's tokenizer accepts as a single quote: `'` U+2018 U+2019 U+201A U+201B -/
def isPwshQuote (c : Char) : Bool :=
  c == '\'' || c == Char.ofNat 0x2018 || c == Char.ofNat 0x2019 || c == Char.ofNat 0x201A || c == Char.ofNat 0x201B

/-- … and as a double quote: `"` U+201C U+201D U+201E -/
def isPwshDQuote (c : Char) : Bool :=
  c == '"' || c == Char.ofNat 0x201C || c == Char.ofNat 0x201D || c == Char.ofNat 0x201E

def pwshNeutral (ws : Bool) (c : Char) : St × Bool :=
  if isPwshQuote c then (.sq, false) else if isPwshDQuote c then (.dq, false) else if c == '`' then (.nBs, false)
  else if c == '#' && ws then (.cm, false) else (.n (isWs c || c == '(' || c == ','), false)

/-- PowerShell: inside single quotes only a doubled quote character is special -/
def pwshStep : Step
  | .n ws, c => pwshNeutral ws c
  | .nBs, _ => (.n false, false)
  | .sq, c => if isPwshQuote c then (.sqQ, false) else (.sq, false)
  | .sqBs, _ => (.sq, false)
  | .sqQ, c => if isPwshQuote c then (.sq, false) else pwshNeutral false c
  | .dq, c => if c == '`' then (.dqBs, false) else if isPwshDQuote c then (.n false, false) else (.dq, c == '$')
  | .dqBs, _ => (.dq, false)
  | .bt, c => pwshNeutral false c
  | .cm, c => if c == '\n' then (.n true, false) else (.cm, false)

def elvishNeutral (ws : Bool) (c : Char) : St × Bool :=
  if c == '\'' then (.sq, false) else if c == '"' then (.dq, false)
  else if c == '#' && ws then (.cm, false) else (.n (isWs c), false)

/-- elvish: inside single quotes only `''` is special; double quotes use backslash escapes and do not expand -/
def elvishStep : Step
  | .n ws, c => elvishNeutral ws c
  | .nBs, _ => (.n false, false)
  | .sq, c => if c == '\'' then (.sqQ, false) else (.sq, false)
  | .sqBs, _ => (.sq, false)
  | .sqQ, c => if c == '\'' then (.sq, false) else elvishNeutral false c
  | .dq, c => if c == '\\' then (.dqBs, false) else if c == '"' then (.n false, false) else (.dq, false)
  | .dqBs, _ => (.dq, false)
  | .bt, c => elvishNeutral false c
  | .cm, c => if c == '\n' then (.n true, false) else (.cm, false)

def nuNeutral (ws : Bool) (c : Char) : St × Bool :=
  if c == '\'' then (.sq, false) else if c == '"' then (.dq, false) else if c == '`' then (.bt, false)
  else if c == '#' && ws then (.cm, false) else (.n (isWs c || c == '[' || c == '('), false)

/-- nushell: a `#` comment runs to the end of the line -/
def nuStep : Step
  | .n ws, c => nuNeutral ws c
  | .nBs, _ => (.n false, false)
  | .sq, c => if c == '\'' then (.n false, false) else (.sq, false)
  | .sqBs, _ => (.sq, false)
  | .sqQ, c => nuNeutral false c
  | .dq, c => if c == '\\' then (.dqBs, false) else if c == '"' then (.n false, false) else (.dq, false)
  | .dqBs, _ => (.dq, false)
  | .bt, c => if c == '`' then (.n false, false) else (.bt, false)
  | .cm, c => if c == '\n' then (.n true, false) else (.cm, false)

/-- scan a string: final state, and whether any character triggered an expansion on the way -/
def run (step : Step) : St → Str → St × Bool
  | st, [] => (st, false)
  | st, c :: r =>
    let (st1, e1) := step st c
    let (st2, e2) := run step st1 r
    (st2, e1 || e2)

/-! ### the descriptive-text slots of each generator -/

inductive Sh | fish | zsh | pwsh | elvish | nu
deriving Repr, DecidableEq

inductive Slot
  | help          -- arg help / subcommand about
  | posHelp       -- zsh: positional help (its own inline chain)
  | pvHelp        -- help of a possible value
deriving Repr, DecidableEq

def stepOf : Sh → Step
  | .fish => fishStep | .zsh => zshStep | .pwsh => pwshStep | .elvish => elvishStep | .nu => nuStep

/-- what the generator writes for a text in a slot -/
def slotEscape : Sh → Slot → Str → Str
  | .fish, _, t => applyChain Gen.fishEscapeString (applyChain Gen.fishHelpPre t)
  | .zsh, .posHelp, t => applyChain Gen.zshPositionalHelp t
  | .zsh, _, t => applyChain Gen.zshEscapeHelp t
  | .pwsh, _, t => applyChain Gen.pwshEscapeString (applyChain Gen.pwshHelpPre t)
  | .elvish, _, t => applyChain Gen.elvishEscapeString (applyChain Gen.elvishHelpPre t)
  | .nu, _, t => applyChain Gen.nuSingleLine t

/-- the quoting state the generator's surrounding text puts the slot in -/
def slotCtx : Sh → Slot → St
  | .fish, .pvHelp => .dq            -- `-a "name\t'help'"`
  | .fish, _ => .sq                  -- `-d 'help'`
  | .zsh, _ => .sq                   -- everything sits in a single-quoted `_arguments` spec word
  | .pwsh, _ => .sq
  | .elvish, _ => .sq
  | .nu, _ => .cm                    -- `# help`

/-! ### zsh, second level: what `_arguments` / `_describe` see after the shell has removed the quoting -/

inductive UnqSt | sq | n | nEsc
deriving Repr, DecidableEq

/-- the shell's reading of (the rest of) a word: inside single quotes `'` leaves the quotes; outside them a
backslash quotes the next character and `'` opens the quotes again -/
def zshUnq : UnqSt → Str → Str
  | _, [] => []
  | .sq, c :: r => if c == '\'' then zshUnq .n r else c :: zshUnq .sq r
  | .n, c :: r => if c == '\'' then zshUnq .sq r else if c == '\\' then zshUnq .nEsc r else c :: zshUnq .n r
  | .nEsc, c :: r => c :: zshUnq .n r

def zshUnqSq (s : Str) : Str := zshUnq .sq s

/-- the `_arguments` / `_describe` mini-language inside `[description]` and `name:description`:
a backslash quotes the next character; the Bool of the result says whether a structural character
(`]` for the bracket form, `:` for the colon form) was met unquoted -/
def specRun (stop : Char) : Bool → Str → Bool × Bool
  | esc, [] => (esc, false)
  | esc, c :: r =>
    if esc then specRun stop false r
    else if c == '\\' then specRun stop true r
    else
      let (e, hit) := specRun stop false r
      (e, hit || c == stop)

/-- `escape_help` without its shell-quoting step (`'` → `'\''`): what is left once the shell has read the word -/
def zshHelpSpecChain : List (Char × Str) := Gen.zshEscapeHelp.filter fun p => p.1 != '\''

end Shell
end Clap
