/-
L4 usage line: `clap_builder/src/output/usage.rs` (`create_usage_with_title`,
`write_help_usage`, `write_smart_usage`, `write_arg_usage`, `write_subcommand_usage`,
`needs_options_tag`, `write_args`, `get_required_usage_from`) together with the pieces of
`command.rs` / `arg.rs` it calls (`required_graph`, `unroll_arg_requires`,
`unroll_args_in_group`, `format_group`, `name_no_brackets`, `Arg::stylized`) and the
`usage_name` a subcommand receives from `_build_bin_names`.

The command is the parser-level `Cmd` of one (built) level; what the usage line reads
beyond it (value names, usage name, `override_usage`, `subcommand_value_name`, which
subcommands are hidden) is the record `UInfo`.  Text is unstyled (`StyledStr`'s `Display`
strips the escape sequences).  `none` = one of the `unwrap`/`expect`/`debug_assert!`s fires.
The `flatten_help` branch of `write_help_usage` (one line per visible subcommand, recursively) is `helpUsageTree`.
-/
import ClapModel.Validator
import ClapModel.HelpTypes
namespace Clap
namespace Usage

structure UInfo where
  usageName : Bytes                            -- `get_usage_name_fallback()`
  overrideUsage : Option Bytes := none
  subValueName : Option Bytes := none
  hiddenSubs : List Bytes := []                -- names of the subcommands with `hide(true)`
  valNames : List (Id × List Bytes) := []      -- `Arg::value_names` (built: never empty for value-taking args unless unset)
deriving Repr, DecidableEq

def b_OPTIONS : Bytes := [91, 79, 80, 84, 73, 79, 78, 83, 93]          -- "[OPTIONS]"
def b_COMMAND : Bytes := [67, 79, 77, 77, 65, 78, 68]                  -- "COMMAND"
def b_UsageTitle : Bytes := [85, 115, 97, 103, 101, 58, 32]            -- "Usage: "
def b_SEP : Bytes := 10 :: List.replicate 7 32                          -- USAGE_SEP = "\n       "
def b_help : Bytes := [104, 101, 108, 112]
def b_version : Bytes := [118, 101, 114, 115, 105, 111, 110]

/-- the help renderer's view of an arg (the `Display`/`stylized` code is shared with help) -/
def toHArg (u : UInfo) (a : Arg) : Help.HArg :=
  { id := a.id, short := a.short, long := a.long,
    valNames := ((u.valNames.find? fun p => p.1 == a.id).map (·.2)).getD [],
    minVals := a.getNumArgs.min, maxVals := a.getNumArgs.max, takesValue := a.takesValue,
    required := a.required, isCount := a.getAction == .count, isAppend := a.getAction == .append,
    requireEquals := a.requireEquals, hide := a.hide }

/-- `stylize_arg_suffix(styles, Some(required))` -/
def argSuffixR (a : Help.HArg) (required : Bool) : Bytes :=
  let optVal := a.minVals == 0
  let start : Bytes :=
    if a.takesValue && !a.isPositional then
      (if a.requireEquals then (if optVal then [91, 61] else [61]) else (if optVal then [32, 91] else [32]))
    else []
  let close : Bytes := if a.takesValue && !a.isPositional && optVal then [93] else []
  let mid : Bytes :=
    if a.takesValue || a.isPositional then Help.renderArgVal a required
    else if a.isCount then [46, 46, 46] else []
  start ++ mid ++ close

/-- `Arg::stylized(styles, Some(required))`, unstyled -/
def stylized (u : UInfo) (a : Arg) (required : Bool) : Bytes :=
  let h := toHArg u a
  (match h.long with
   | some l => [45, 45] ++ l
   | none => match h.short with
     | some s => 45 :: s
     | none => []) ++ argSuffixR h required

/-- `Arg::name_no_brackets` -/
def nameNoBrackets (u : UInfo) (a : Arg) : Bytes :=
  let vn := (toHArg u a).valNames
  match vn with
  | [] => a.id
  | [n] => n
  | _ => Help.intercalateB [32] (vn.map fun n => [60] ++ n ++ [62])

/-- the members `Command::format_group` displays: the unrolled members that are args and are not hidden (after the
`fix:` for finding F29; hidden members used to be listed too) -/
def groupShown (c : Cmd) (g : Id) : Option (List Arg) :=
  (Validator.argsInGroup c g).map fun ms => (ms.filterMap c.find).filter fun a => !a.hide

/-- `Command::format_group`: `<a|b|c>` -/
def formatGroup (c : Cmd) (u : UInfo) (g : Id) : Option Bytes :=
  (groupShown c g).map fun shown =>
    [60] ++ Help.intercalateB [124] (shown.map fun a =>
      if a.isPositional then nameNoBrackets u a else Help.display (toHArg u a)) ++ [62]

/-- `needs_options_tag`: is there a visible, optional, non-built-in option outside every required group? -/
def optionCounts (c : Cmd) (f : Arg) : Bool :=
  !(f.long == some b_help || f.long == some b_version) &&
  (match f.getAction with
   | .help | .helpShort | .helpLong | .version => false
   | _ => true) &&
  !f.hide && !f.required &&
  !((c.groupsForArg f.id).any fun gs => c.groups.any fun g => g.id == gs && g.required)

def needsOptionsTag (c : Cmd) : Bool := (c.args.filter fun a => !a.isPositional).any (optionCounts c)

/-- `FlatSet::insert` -/
def setInsert (s : List Bytes) (x : Bytes) : List Bytes := if s.contains x then s else s ++ [x]
def setExtend (s : List Bytes) (xs : List Bytes) : List Bytes := xs.foldl setInsert s

/-- `v.resize(max(len, i+1), None); v[i] = x` -/
def setSlot : List (Option Bytes) → Nat → Option Bytes → List (Option Bytes)
  | [], 0, x => [x]
  | [], i+1, x => none :: setSlot [] i x
  | _ :: v, 0, x => x :: v
  | y :: v, i+1, x => y :: setSlot v i x

def getSlot (v : List (Option Bytes)) (i : Nat) : Option Bytes := (v[i]?).getD none

/-- the ids `write_args` / `get_required_usage_from` walk: every member of the required graph preceded by what it
requires unconditionally (`relevant` decides for value-conditional `requires`) -/
def unrolledReqs (c : Cmd) (required : List Id) (relevant : Id → Pred × Id → Option Id) : List Id :=
  required.flatMap fun a =>
    Validator.unrollArgRequires c (relevant a) (Validator.requiresFuel c) [a] [] [] ++ [a]

def relevantStatic (_ : Id) (p : Pred × Id) : Option Id :=
  match p.1 with
  | .isPresent => some p.2
  | .equals _ => none

/-- first loop of `write_args`: (required group displays, their unrolled members); `none` = a `debug_assert!`/`expect` -/
def groupPass (c : Cmd) (u : UInfo) (skipPresent : List Id → Bool) : List Id → List Bytes → List Id → Option (List Bytes × List Id)
  | [], gs, ms => some (gs, ms)
  | req :: rest, gs, ms =>
    if (c.findGroup req).isSome then
      match Validator.argsInGroup c req, formatGroup c u req with
      | some members, some elem =>
        if skipPresent members then groupPass c u skipPresent rest gs ms
        else groupPass c u skipPresent rest (setInsert gs elem) (setExtend ms members)
      | _, _ => none
    else if (c.find req).isSome then groupPass c u skipPresent rest gs ms
    else none

/-- second loop: (required option displays, positional slots) -/
def argPass (c : Cmd) (u : UInfo) (members : List Id) (required : Bool) (skip : Arg → Bool) :
    List Id → List Bytes → List (Option Bytes) → Option (List Bytes × List (Option Bytes))
  | [], opts, pos => some (opts, pos)
  | req :: rest, opts, pos =>
    match c.find req with
    | some a =>
      if members.contains a.id || skip a then argPass c u members required skip rest opts pos
      else
        let s := stylized u a required
        match a.index with
        | some i => argPass c u members required skip rest opts (setSlot pos i (some s))
        | none => argPass c u members required skip rest (setInsert opts s) pos
    | none => if (c.findGroup req).isSome then argPass c u members required skip rest opts pos else none

/-- third loop of `write_args`: every visible positional gets its slot -/
def posPass (u : UInfo) (members : List Id) (forceOptional : Bool) : List Arg → List (Option Bytes) → Option (List (Option Bytes))
  | [], pos => some pos
  | p :: rest, pos =>
    if p.hide || members.contains p.id then posPass u members forceOptional rest pos
    else
      match p.index with
      | none => none                                  -- `pos.get_index().unwrap()`
      | some i =>
        let cur := getSlot pos i
        let new : Option Bytes :=
          match cur with
          | some s => if p.last then some ([45, 45, 32] ++ s) else some s
          | none =>
            if p.last then some ([91, 45, 45, 32] ++ stylized u p true ++ [93])
            else some (stylized u p false)
        let new := if p.last && forceOptional then none else new
        posPass u members forceOptional rest (setSlot pos i new)

def joinSp (xs : List Bytes) : Bytes := xs.flatMap fun x => x ++ [32]

/-- the three collections `write_args(incls, force_optional)` fills: required options, required groups, positional slots -/
def argParts (c : Cmd) (u : UInfo) (required : List Id) (incls : List Id) (forceOptional : Bool) :
    Option (List Bytes × List Bytes × List (Option Bytes)) :=
  let reqs := unrolledReqs c required relevantStatic ++ incls
  match groupPass c u (fun _ => false) reqs [] [] with
  | none => none
  | some (groups, members) =>
    match argPass c u members (!forceOptional) (fun _ => false) reqs [] [] with
    | none => none
    | some (opts, pos0) =>
      match posPass u members forceOptional c.positionals pos0 with
      | none => none
      | some pos => some (opts, groups, pos)

/-- `write_args(incls, force_optional)`: the pieces, each followed by one space in the output -/
def argPieces (c : Cmd) (u : UInfo) (required : List Id) (incls : List Id) (forceOptional : Bool) : Option (List Bytes) :=
  (argParts c u required incls forceOptional).map fun (opts, groups, pos) =>
    (if forceOptional then [] else opts ++ groups) ++ pos.filterMap id

def writeArgs (c : Cmd) (u : UInfo) (required : List Id) (incls : List Id) (forceOptional : Bool) : Option Bytes :=
  (argPieces c u required incls forceOptional).map joinSp

/-- `write_arg_usage(used, incl_reqs)` -/
def writeArgUsage (c : Cmd) (u : UInfo) (required : List Id) (used : List Id) (inclReqs : Bool) : Option Bytes :=
  (writeArgs c u required used (!inclReqs)).map fun args =>
    (if u.usageName.isEmpty then [] else u.usageName ++ [32]) ++
    (if used.isEmpty && needsOptionsTag c then b_OPTIONS ++ [32] else []) ++ args

/-- `has_visible_subcommands` -/
def hasVisibleSubs (c : Cmd) (u : UInfo) : Bool := c.subs.any fun s => s.name != b_help && !u.hiddenSubs.contains s.name

/-- `StyledStr::trim_end` (ASCII white space; names are assumed not to end in other Unicode white space) -/
def trimEnd (s : Bytes) : Bytes := (s.reverse.dropWhile fun b => b == 32 || (9 ≤ b && b ≤ 13)).reverse

/-- `write_subcommand_usage`, applied to what has been written so far -/
def writeSubcommandUsage (c : Cmd) (u : UInfo) (required : List Id) (sofar : Bytes) : Option Bytes :=
  if hasVisibleSubs c u || c.settings.allowExternalSubcommands then
    let vn := u.subValueName.getD b_COMMAND
    if c.settings.subcommandNegatesReqs || c.settings.argsConflictsWithSubcommands then
      let head := trimEnd sofar ++ b_SEP
      if c.settings.argsConflictsWithSubcommands then
        some (head ++ u.usageName ++ [32] ++ [60] ++ vn ++ [62])
      else
        (writeArgUsage c u required [] false).map fun x => head ++ x ++ [60] ++ vn ++ [62]
    else if c.settings.subcommandRequired then some (sofar ++ [60] ++ vn ++ [62])
    else some (sofar ++ [91] ++ vn ++ [93])
  else some sofar

/-- `write_help_usage` without `flatten_help` -/
def writeHelpUsage (c : Cmd) (u : UInfo) (required : List Id) : Option Bytes :=
  (writeArgUsage c u required [] true).bind (writeSubcommandUsage c u required)

/-- `write_smart_usage(used)` -/
def writeSmartUsage (c : Cmd) (u : UInfo) (required : List Id) (used : List Id) : Option Bytes :=
  (writeArgUsage c u required used true).map fun x =>
    if c.settings.subcommandRequired then x ++ [60] ++ u.subValueName.getD b_COMMAND ++ [62] else x

/-- `write_usage_no_title(used)` -/
def usageNoTitle (c : Cmd) (u : UInfo) (required : List Id) (used : List Id) : Option Bytes :=
  match u.overrideUsage with
  | some o => some o
  | none => if used.isEmpty then writeHelpUsage c u required else writeSmartUsage c u required used

/-- `create_usage_with_title(used)`; `render_usage()` is this with `used = []` and the command's own required graph -/
def usageWithTitle (c : Cmd) (u : UInfo) (required : List Id) (used : List Id) : Option Bytes :=
  (usageNoTitle c u required used).map fun x => trimEnd (b_UsageTitle ++ x)

def renderUsage (c : Cmd) (u : UInfo) : Option Bytes := usageWithTitle c u (Validator.requiredGraph c) []

/-- is the id explicitly present in the matcher handed to `get_required_usage_from` (if any)? -/
def presentIn (m : Option ArgMap) (id : Id) : Bool :=
  match m with | some m => m.checkExplicit id .isPresent | none => false

/-- which `requires` entries of `a` count: unconditional ones, and value-conditional ones whose value `a` has -/
def relevantWith (m : Option ArgMap) (a : Id) (p : Pred × Id) : Option Id :=
  match p.1 with
  | .isPresent => some p.2
  | .equals v => match m with
    | some m => if m.checkExplicit a (.equals v) then some p.2 else none
    | none => none

/-- args `get_required_usage_from` leaves out: present ones, and a `last` positional unless `incl_last` -/
def skipFor (m : Option ArgMap) (inclLast : Bool) (a : Arg) : Bool :=
  presentIn m a.id || (a.index.isSome && a.last && !inclLast)

/-- `get_required_usage_from(incls, matcher, incl_last)` -/
def requiredUsageFrom (c : Cmd) (u : UInfo) (required : List Id) (incls : List Id) (m : Option ArgMap) (inclLast : Bool) :
    Option (List Bytes) :=
  let reqs := unrolledReqs c required (relevantWith m) ++ incls
  match groupPass c u (fun members => members.any (presentIn m)) reqs [] [] with
  | none => none
  | some (groups, members) =>
    match argPass c u members true (skipFor m inclLast) reqs [] [] with
    | none => none
    | some (opts, pos) => some (opts ++ groups ++ pos.filterMap id)

/-- the `usage_name` `_build_bin_names` gives a subcommand: parent's bin name, the parent's required usage
(unless subcommands negate requirements), then `name` or `{name|--long|-s}` -/
def subUsageName (c : Cmd) (u : UInfo) (binName : Bytes) (sc : Cmd) : Option Bytes :=
  let reqs : Option (List Bytes) :=
    if !c.settings.subcommandNegatesReqs && !c.settings.argsConflictsWithSubcommands then
      requiredUsageFrom c u (Validator.requiredGraph c) [] none true
    else some []
  reqs.map fun rs =>
    let mid : Bytes := 32 :: joinSp rs
    let names0 := sc.name ++ (match sc.longFlag with | some l => [124, 45, 45] ++ l | none => []) ++
      (match sc.shortFlag with | some s => [124, 45] ++ s | none => [])
    let names := if sc.longFlag.isSome || sc.shortFlag.isSome then [123] ++ names0 ++ [125] else names0
    binName ++ mid ++ names

/-! ### `flatten_help`: `write_help_usage` over the tree -/

/-- what the usage line reads beyond `Cmd`, for a whole tree: one `UInfo` per level, the level's `flatten_help`
setting, and the same for the user-defined subcommands in definition order (the generated `help` subcommand has none) -/
inductive UTree
  | mk (info : UInfo) (flatten : Bool) (subs : List UTree)

def UTree.info : UTree → UInfo | .mk i _ _ => i
def UTree.flatten : UTree → Bool | .mk _ f _ => f
def UTree.subs : UTree → List UTree | .mk _ _ s => s

/-- the subcommands of a built level paired with their `UTree` (`none` for the generated `help` subcommand, which comes
after the user-defined ones) -/
def pairSubs : List Cmd → List UTree → List (Cmd × Option UTree)
  | [], _ => []
  | s :: ss, [] => (s, none) :: pairSubs ss []
  | s :: ss, t :: ts => (s, some t) :: pairSubs ss ts

/-- `write_usage_no_title(&[])` for the level `c` of a tree built with `Command::build()`; `bin` is the level's
`bin_name`, `t.info.usageName` its `usage_name`; `fuel` bounds the depth -/
def helpUsageTree : Nat → Cmd → UTree → Bytes → Option Bytes
  | 0, _, _, _ => none
  | fuel+1, c, t, bin =>
    let u := t.info
    match u.overrideUsage with
    | some o => some o
    | none =>
      let required := Validator.requiredGraph c
      if hasVisibleSubs c u && t.flatten then
        let head : Option Bytes :=
          if !c.settings.subcommandRequired || c.settings.argsConflictsWithSubcommands then
            (writeArgUsage c u required [] true).map fun x => trimEnd x ++ b_SEP
          else some []
        let visible := (pairSubs c.subs t.subs).filter fun p => !u.hiddenSubs.contains p.1.name
        let step := fun (acc : Option (Bytes × Bool)) (p : Cmd × Option UTree) =>
          match acc with
          | none => none
          | some (sofar, first) =>
            let sofar := if first then sofar else trimEnd sofar ++ b_SEP
            match subUsageName c u bin p.1 with
            | none => none
            | some un =>
              let line : Option Bytes :=
                match p.2 with
                | none =>
                  -- the generated `help` subcommand, its tree expanded by `build()`: `<usage name> [COMMAND]`
                  some (un ++ [32] ++ [91] ++ b_COMMAND ++ [93])
                | some st =>
                  helpUsageTree fuel p.1 (.mk { st.info with usageName := un } st.flatten st.subs) (bin ++ [32] ++ p.1.name)
              line.map fun l => (sofar ++ l, false)
        (visible.foldl step (head.map fun h => (h, true))).map (·.1)
      else writeHelpUsage c u required

/-- `render_usage()` of a level of a built tree -/
def renderUsageTree (fuel : Nat) (c : Cmd) (t : UTree) (bin : Bytes) : Option Bytes :=
  (helpUsageTree fuel c t bin).map fun x => trimEnd (b_UsageTitle ++ x)

/-! ### what a `MissingRequiredArgument` error carries (`Validator::validate_required` → `missing_required_error`) -/

/-- the `missing_required` list of `validate_required` together with `highest_index`, pass 1: the required graph -/
def missingPass1 (c : Cmd) (m : ArgMap) (pot : List (Id × List Id)) (excl : Bool) : List Id → List Id → Nat → Option (List Id × Nat)
  | [], acc, hi => some (acc, hi)
  | r :: rs, acc, hi =>
    if m.checkExplicit r .isPresent then missingPass1 c m pot excl rs acc hi else
    match c.find r with
    | some a =>
      match Validator.isMissingRequiredOk c pot a with
      | none => none
      | some ok =>
        if !excl && !ok then missingPass1 c m pot excl rs (acc ++ [a.id]) (if a.last then hi else max hi (a.index.getD 0))
        else missingPass1 c m pot excl rs acc hi
    | none =>
      match c.findGroup r with
      | some g =>
        match Validator.argsInGroup c g.id with
        | none => none
        | some members =>
          if !(members.any fun a => m.checkExplicit a .isPresent) then missingPass1 c m pot excl rs (acc ++ [g.id]) hi
          else missingPass1 c m pot excl rs acc hi
      | none => missingPass1 c m pot excl rs acc hi

/-- pass 2: the conditionally required args, in definition order -/
def missingPass2 (m : ArgMap) (excl : Bool) : List Arg → List Id → Nat → List Id × Nat
  | [], acc, hi => (acc, hi)
  | a :: as, acc, hi =>
    if Validator.conditionallyMissing m a && !excl then
      missingPass2 m excl as (acc ++ [a.id]) (if a.last then hi else max hi (a.index.getD 0))
    else missingPass2 m excl as acc hi

/-- `validate_required`'s `missing_required` (pass 3 adds, for display, the absent positionals below the highest missing index) -/
def missingRequired (c : Cmd) (m : ArgMap) (pot : List (Id × List Id)) : Option (List Id) :=
  let excl := Validator.isExclusivePresent c m
  match missingPass1 c m pot excl (Validator.requiredIds c m) [] 0 with
  | none => none
  | some (acc1, hi1) =>
    let (acc2, hi2) := missingPass2 m excl c.args acc1 hi1
    let extra := if c.settings.allowMissingPositional then [] else
      (c.positionals.filter fun p => !m.checkExplicit p.id .isPresent &&
        (match p.index with | some i => decide (i < hi2) | none => true)).map (·.id)
    some (acc2 ++ extra)

/-- `missing_required_error`: the strings of `ContextKind::InvalidArg` and the usage line of the error -/
def missingRequiredError (c : Cmd) (u : UInfo) (m : ArgMap) (pot : List (Id × List Id)) : Option (List Bytes × Bytes) :=
  match missingRequired c m pot with
  | none => none
  | some missing =>
    let required := Validator.requiredIds c m
    match requiredUsageFrom c u required missing (some m) true with
    | none => none
    | some reqArgs =>
      let used := ((m.filter fun p => p.2.checkExplicit .isPresent).map (·.1)).filter
        (fun n => ((c.find n).map fun a => !a.hide).getD false) ++ missing
      (usageWithTitle c u required used).map fun line => (reqArgs, line)

/-! ### what an `ArgumentConflict` error of the validator carries (`validate_exclusive`, `build_conflict_err`,
`build_conflict_err_usage`); at that point the validator's required graph is still the command's own -/

/-- `Arg::to_string()` -/
def displayArg (u : UInfo) (a : Arg) : Bytes := Help.display (toHArg u a)

/-- the ids `build_conflict_err` lists: groups unrolled, first occurrence kept -/
def conflictOthers (c : Cmd) : List Id → List Id → Option (List Id)
  | [], seen => some seen
  | cid :: rest, seen =>
    let ids : Option (List Id) := if (c.findGroup cid).isSome then Validator.argsInGroup c cid else some [cid]
    match ids with
    | none => none
    | some ids => conflictOthers c rest (ids.foldl (fun acc i => if acc.contains i then acc else acc ++ [i]) seen)

/-- `build_conflict_err_usage` -/
def conflictUsage (c : Cmd) (u : UInfo) (m : ArgMap) (confs : List Id) : Option Bytes :=
  let usedFiltered := ((Validator.explicitIds m).filter fun n => ((c.find n).map fun a => !a.hide).getD false).filter
    fun k => !confs.contains k
  let required := ((usedFiltered.filterMap c.find).flatMap fun a => a.requires.map (·.2)).filter
    (fun k => !usedFiltered.contains k && !confs.contains k) ++ usedFiltered
  usageWithTitle c u (Validator.requiredGraph c) required

/-- the first conflict the validator reports: (`InvalidArg`, `PriorArg` strings, usage line); inner `none` = no conflict,
outer `none` = an `expect` fails -/
def conflictError (c : Cmd) (u : UInfo) (m : ArgMap) (pot : List (Id × List Id)) : Option (Option (Bytes × List Bytes × Bytes)) :=
  let explicit := Validator.explicitIds m
  let present := explicit.filter fun id => (c.find id).isSome
  let excl : Option Arg :=
    if present.length ≤ 1 then none else (explicit.filterMap fun id => (c.find id).filter (·.exclusive)).head?
  match excl with
  | some a => (usageWithTitle c u (Validator.requiredGraph c) []).map fun line => some (displayArg u a, [], line)
  | none =>
    let rec go : List Id → Option (Option (Bytes × List Bytes × Bytes))
      | [] => some none
      | id :: ids =>
        match Validator.gatherConflicts c pot id with
        | none => none
        | some [] => go ids
        | some confs =>
          match conflictOthers c confs [], c.find id, conflictUsage c u m confs with
          | some others, some former, some line =>
            (others.mapM fun i => (c.find i).map (displayArg u)).map fun strs => some (displayArg u former, strs, line)
          | _, _, _ => none
    go present

end Usage
end Clap
