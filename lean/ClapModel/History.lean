/-
The life cycle of one `Command` value (`clap_builder/src/builder/command.rs`):
`build`, `render_help`/`render_long_help`/`render_usage`, `clone`, and
`try_get_matches_from_mut` all go through `_build_self`, which is guarded by
`AppSettings::Built`.
-/
import ClapModel.Command
namespace Clap
namespace History

inductive Op
  | build                       -- `Command::build` (`_build_recursive`)
  | render                      -- `render_help`, `render_long_help`, `render_usage` (`_build_self`)
  | clone                       -- `Clone::clone`
  | parse (argv : List Bytes)   -- `try_get_matches_from_mut`
deriving Repr

/-- the result of `try_get_matches_from_mut` on the current value -/
def parseNow (similar : Bytes → Bytes → Bool) (depth : Nat) (c : Cmd) (argv : List Bytes) : Option (Except EK Matches) :=
  Command.tryGetMatchesFrom similar depth c argv

/-- the value left behind by an operation -/
def step (depth : Nat) (c : Cmd) : Op → Cmd
  | .build => Build.buildAll (depth + 2) c
  | .render => Build.buildSelf c
  | .clone => c
  | .parse _ => Build.buildAll (depth + 2) c

def run (depth : Nat) (c : Cmd) (h : List Op) : Cmd := h.foldl (step depth) c

end History
end Clap
