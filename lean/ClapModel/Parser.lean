/-
L3 parser: `clap_builder/src/parser/{parser,arg_matcher}.rs` and
`matches/matched_arg.rs` over a built `Cmd`.

State is threaded explicitly (`P`), every function returns the state even on
error (the matcher survives an error when `ignore_errors` is on).  Every
`unwrap`/`expect`/`unreachable!`/`debug_assert!` that guards an internal
invariant is an explicit `EK.panic site` outcome.
-/
import ClapModel.Cmd
import ClapModel.Lex
import ClapModel.Build
namespace Clap

/-- `ErrorKind` (plus the model-only `panic`) -/
inductive EK
  | invalidValue | unknownArgument | invalidSubcommand | noEquals | valueValidation
  | tooManyValues | tooFewValues | wrongNumberOfValues | argumentConflict
  | missingRequiredArgument | missingSubcommand | invalidUtf8
  | displayHelp | displayHelpOnMissing | displayVersion
  | panic (site : String)
deriving Repr, DecidableEq

/-- `Error::use_stderr` -/
def EK.useStderr : EK → Bool
  | .displayHelp => false
  | .displayVersion => false
  | _ => true

structure MatchedArg where
  source : Option Source := none
  indices : List Nat := []
  isGroup : Bool := false            -- `type_id == None`
  rawVals : List (List Bytes) := []  -- value groups (one per occurrence), oldest first
  ignoreCase : Bool := false
deriving Repr, DecidableEq

namespace MatchedArg
def setSource (m : MatchedArg) (s : Source) : MatchedArg :=
  { m with source := some (match m.source with | some e => e.max s | none => s) }
def newValGroup (m : MatchedArg) : MatchedArg := { m with rawVals := m.rawVals ++ [[]] }
/-- `append_val`: `None` = the `expect` on a missing value group -/
def appendVal (m : MatchedArg) (v : Bytes) : Option MatchedArg :=
  match m.rawVals.reverse with
  | [] => none
  | last :: before => some { m with rawVals := (before.reverse) ++ [last ++ [v]] }
def pushIndex (m : MatchedArg) (i : Nat) : MatchedArg := { m with indices := m.indices ++ [i] }
def rawFlat (m : MatchedArg) : List Bytes := m.rawVals.flatten
/-- `check_explicit` -/
def checkExplicit (m : MatchedArg) (p : Pred) : Bool :=
  if (m.source.map fun s => !s.isExplicit).getD false then false else
  match p with
  | .isPresent => true
  | .equals v => m.rawFlat.any fun x => if m.ignoreCase then Values.eqIgnoreAsciiCase x v else x == v
end MatchedArg

abbrev ArgMap := List (Id × MatchedArg)

namespace ArgMap
def get (m : ArgMap) (id : Id) : Option MatchedArg := (m.find? fun p => p.1 == id).map (·.2)
def contains (m : ArgMap) (id : Id) : Bool := m.any fun p => p.1 == id
/-- `FlatMap::remove` (order of the rest kept) -/
def remove (id : Id) : ArgMap → ArgMap
  | [] => []
  | p :: ps => if p.1 == id then ps else p :: remove id ps
/-- `FlatMap::insert`: replace in place or append -/
def insert (m : ArgMap) (id : Id) (v : MatchedArg) : ArgMap :=
  if m.contains id then m.map fun p => if p.1 == id then (id, v) else p else m ++ [(id, v)]
/-- modify an existing entry -/
def update (m : ArgMap) (id : Id) (f : MatchedArg → MatchedArg) : ArgMap :=
  m.map fun p => if p.1 == id then (p.1, f p.2) else p
def ids (m : ArgMap) : List Id := m.map (·.1)
def checkExplicit (m : ArgMap) (id : Id) (p : Pred) : Bool := ((m.get id).map fun a => a.checkExplicit p).getD false
end ArgMap

inductive Ident | short | long | index
deriving Repr, DecidableEq

structure Pending where
  id : Id
  ident : Option Ident
  rawVals : List Bytes
  trailingIdx : Option Nat
deriving Repr, DecidableEq

/-- parser + matcher state of one level -/
structure P where
  args : ArgMap := []
  pending : Option Pending := none
  sub : List (Bytes × ArgMap) := []     -- the subcommand chain below this level
  curIdx : Nat := 0
  flagSubAt : Option Nat := none
  flagSubSkip : Nat := 0
  flagSubConsumed : Nat := 0          -- short flags of the current cluster consumed up to and including the flag subcommand
deriving Repr

abbrev R (α : Type) := P × Except EK α

inductive ParseState
  | valuesDone | opt (id : Id) | pos (id : Id)
deriving Repr, DecidableEq

inductive ParseResult
  | flagSubCommand (name : Bytes) | opt (id : Id) | valuesDone | attachedValueNotConsumed
  | unneededAttachedValue | maybeHyphenValue | equalsNotProvided | noMatchingArg | noArg
deriving Repr, DecidableEq

namespace Parser

/-! ### value parsers -/
def liftVErr : Values.VErr → EK
  | .invalidUtf8 => .invalidUtf8 | .valueValidation => .valueValidation | .invalidValue => .invalidValue

def liftVRes {α : Type} : Values.VRes α → Except EK Unit
  | .ok _ => .ok ()
  | .err e => .error (liftVErr e)

def parseValue (a : Arg) (raw : Bytes) : Except EK Unit :=
  match a.getVP with
  | .string => if Utf8.valid raw then .ok () else .error .invalidUtf8
  | .osString => .ok ()
  | .bool => liftVRes (Values.boolParser raw)
  | .count => liftVRes ((Values.Ranged.range (Values.Ranged.new false 0 255) (.included 0) (.included 255)).parse raw)
  | .i64r lo hi => liftVRes (((Values.Ranged.new false Values.i64Min Values.i64Max).range lo hi).parse raw)
  | .possible pvs => liftVRes (Values.possibleValuesParser pvs a.ignoreCase raw)
  | .nonEmpty => if raw.isEmpty then .error .invalidValue else if Utf8.valid raw then .ok () else .error .invalidUtf8

/-! ### `ArgMatcher` -/

/-- `pending_values_mut(id, ident, trailing)` followed by an optional push -/
def pendingPush (p : P) (id : Id) (ident : Option Ident) (trailing : Bool) (val : Option Bytes) : R Unit :=
  let pend : Pending := p.pending.getD ⟨id, ident, [], none⟩
  if pend.id != id then (p, .error (.panic "pending_values_mut: id mismatch")) else
  if ident.isSome && pend.ident != ident then (p, .error (.panic "pending_values_mut: ident mismatch")) else
  let pend := if trailing then { pend with trailingIdx := some (pend.trailingIdx.getD pend.rawVals.length) } else pend
  let pend := match val with | some v => { pend with rawVals := pend.rawVals ++ [v] } | none => pend
  ({ p with pending := some pend }, .ok ())

/-- `needs_more_vals` -/
def needsMoreVals (p : P) (a : Arg) : Bool :=
  let n := match p.pending with | some pd => if pd.id == a.id then pd.rawVals.length else 0 | none => 0
  a.getNumArgs.acceptsMore n

def startTrailing (p : P) : P :=
  match p.pending with
  | some pd => { p with pending := some { pd with trailingIdx := some (pd.trailingIdx.getD pd.rawVals.length) } }
  | none => p

/-- the arg members of a group through nested groups (`unroll_args_in_group`; fuel-bounded, an unknown group
contributes nothing - the validator's own model of the function keeps the `expect`) -/
def groupArgs (c : Cmd) : Nat → List Id → List Id → List Id
  | _, [], acc => acc
  | 0, _ :: _, acc => acc
  | fuel+1, g :: gs, acc =>
    match c.findGroup g with
    | none => groupArgs c fuel gs acc
    | some grp =>
      let st := grp.args.foldl (fun (st : List Id × List Id) n =>
          if st.1.contains n then st
          else if (c.find n).isSome then (st.1 ++ [n], st.2)
          else (st.1, n :: st.2)) (acc, [])
      groupArgs c fuel (st.2 ++ gs) st.1

/-- a group none of whose members is matched any more is dropped (after the `fix:` for finding F22: an overridden
arg used to leave its groups' entries behind, and the validator took those groups for present) -/
def dropEmptyGroups (c : Cmd) (id : Id) (m : ArgMap) : ArgMap :=
  (c.groupsForArg id).foldl (fun acc g =>
    if (groupArgs c (c.groups.length + c.args.length + 1) [g] []).any (fun a => acc.contains a) then acc
    else ArgMap.remove g acc) m

/-- `remove_overridden` -/
def removeOverridden (c : Cmd) (m : ArgMap) (o : Id) : ArgMap :=
  if m.contains o then dropEmptyGroups c o (ArgMap.remove o m) else m

/-- `remove_overrides` -/
def removeOverrides (c : Cmd) (a : Arg) (m : ArgMap) : ArgMap :=
  let m1 := a.overrides.foldl (removeOverridden c) m
  let transitive := m1.ids.filter fun id => match c.find id with
    | some ov => ov.overrides.contains a.id
    | none => false
  transitive.foldl (removeOverridden c) m1

/-- `ArgMatcher::start_custom_arg` / `start_custom_group` -/
def matcherStart (m : ArgMap) (id : Id) (fresh : MatchedArg) (source : Source) : ArgMap :=
  let m1 := if m.contains id then m else m ++ [(id, fresh)]
  m1.update id fun ma => (ma.setSource source).newValGroup

/-- one group of `start_custom_arg`'s loop: start the group, record the member (`false` = `add_val_to`'s `expect`) -/
def groupStep (a : Arg) (source : Source) (acc : ArgMap × Bool) (g : Id) : ArgMap × Bool :=
  let m := matcherStart acc.1 g { isGroup := true } source
  match (m.get g).bind fun ma => ma.appendVal a.id with
  | some ma' => (m.update g fun _ => ma', acc.2)
  | none => (m, false)

/-- `Parser::start_custom_arg` -/
def startCustomArg (c : Cmd) (a : Arg) (source : Source) (p : P) : R Unit :=
  let m0 := if source == .cmdline then removeOverrides c a p.args else p.args
  let m1 := matcherStart m0 a.id { ignoreCase := a.ignoreCase } source
  if !source.isExplicit then ({ p with args := m1 }, .ok ()) else
  let r := (c.groupsForArg a.id).foldl (groupStep a source) (m1, true)
  if r.2 then ({ p with args := r.1 }, .ok ()) else ({ p with args := r.1 }, .error (.panic "add_val_to: no value group"))

/-- `push_arg_values` -/
def pushArgValues (a : Arg) : List Bytes → P → R Unit
  | [], p => (p, .ok ())
  | raw :: rest, p =>
    let p1 := { p with curIdx := p.curIdx + 1 }
    match parseValue a raw with
    | .error e => (p1, .error e)
    | .ok () =>
      match (p1.args.get a.id).bind fun ma => ma.appendVal raw with
      | none => (p1, .error (.panic "add_val_to: expect"))
      | some ma' =>
        let m := p1.args.update a.id fun _ => ma'.pushIndex p1.curIdx
        pushArgValues a rest { p1 with args := m }

/-- `verify_num_args` -/
def verifyNumArgs (c : Cmd) (a : Arg) (n : Nat) : Except EK Unit :=
  if c.settings.ignoreErrors then .ok () else
  let exp := a.getNumArgs
  if 0 < exp.min && n == 0 then .error .invalidValue
  else match exp.numValues with
    | some e => if e != n then .error .wrongNumberOfValues else .ok ()
    | none =>
      if n < exp.min then .error .tooFewValues
      else if exp.maxLt n then .error .tooManyValues
      else .ok ()

/-- split at the value delimiter (`OsStrExt::split`) -/
def splitDelim (c : Cmd) (a : Arg) (rawVals : List Bytes) (trailingIdx : Option Nat) : List Bytes :=
  match a.delim with
  | none => rawVals
  | some d =>
    if c.settings.dontDelimitTrailingValues && trailingIdx == some 0 then rawVals else
    let rec go (i : Nat) : List Bytes → List Bytes
      | [] => []
      | v :: vs =>
        if !OsStrExt.contains v d || (c.settings.dontDelimitTrailingValues && trailingIdx == some i) then v :: go (i+1) vs
        else ((OsStrExt.split v d).getD [v]) ++ go (i+1) vs
    go 0 rawVals

/-- "Record flag's index" -/
def bumpIdx (source : Source) (ident : Option Ident) (p : P) : P :=
  if source == .cmdline && (ident == some .short || ident == some .long) then { p with curIdx := p.curIdx + 1 } else p

/-- `start_custom_arg` + `push_arg_values`, the common tail of the value-storing actions -/
def reactFinish (c : Cmd) (a : Arg) (source : Source) (p : P) (vals : List Bytes) : R ParseResult :=
  match startCustomArg c a source p with
  | (p1, .error e) => (p1, .error e)
  | (p1, .ok ()) =>
    match pushArgValues a vals p1 with
    | (p2, .error e) => (p2, .error e)
    | (p2, .ok ()) => (p2, .ok .valuesDone)

/-- `matcher.remove(id) && !(args_override_self || overrides self)` then store -/
def reactReplace (c : Cmd) (a : Arg) (source : Source) (p : P) (vals : List Bytes) : R ParseResult :=
  let had := p.args.contains a.id
  let p2 := { p with args := ArgMap.remove a.id p.args }
  if had && !(c.settings.argsOverrideSelf || a.overrides.contains a.id) then (p2, .error .argumentConflict)
  else reactFinish c a source p2 vals

/-- the next value of a `Count` flag: `existing.unwrap_or(0).saturating_add(1)` -/
def countNext (p : P) (a : Arg) : Nat :=
  let existing : Nat := match (p.args.get a.id).bind fun ma => ma.rawFlat.head? with
    | some v => (Values.digitsVal 0 v).getD 0
    | none => 0
  min (existing + 1) Gen.countTypeMax

/-- decimal rendering (`to_string`) as bytes -/
def natBytes (n : Nat) : Bytes := (Nat.toDigits 10 n).map fun ch => ch.toNat.toUInt8

/-- `react` after its leading `resolve_pending` (the pending arg has already been taken) -/
def reactCore (c : Cmd) (ident : Option Ident) (source : Source) (a : Arg) (rawVals : List Bytes)
    (trailingIdx : Option Nat) (p : P) : R ParseResult :=
  match (if source == .cmdline then verifyNumArgs c a rawVals.length else .ok ()) with
  | .error e => (p, .error e)
  | .ok () =>
  let useMissing := rawVals.isEmpty && !a.defaultMissing.isEmpty
  let rawVals1 := if useMissing then a.defaultMissing else rawVals
  let trailingIdx1 := if useMissing then none else trailingIdx
  let vals := splitDelim c a rawVals1 trailingIdx1
  match a.getAction with
  | .set => reactReplace c a source (bumpIdx source ident p) vals
  | .append => reactFinish c a source (bumpIdx source ident p) vals
  | .setTrue => reactReplace c a source p (if vals.isEmpty then [Values.bTrue] else vals)
  | .setFalse => reactReplace c a source p (if vals.isEmpty then [Values.bFalse] else vals)
  | .count =>
    reactFinish c a source { p with args := ArgMap.remove a.id p.args }
      (if vals.isEmpty then [natBytes (countNext p a)] else vals)
  | .help => (p, .error .displayHelp)
  | .helpShort => (p, .error .displayHelp)
  | .helpLong => (p, .error .displayHelp)
  | .version => (p, .error .displayVersion)

/-- `resolve_pending` -/
def resolvePending (c : Cmd) (p : P) : R Unit :=
  match p.pending with
  | none => (p, .ok ())
  | some pd =>
    let p1 := { p with pending := none }
    match c.find pd.id with
    | none => (p1, .error (.panic "resolve_pending: expect"))
    | some a =>
      let (p2, r) := reactCore c pd.ident .cmdline a pd.rawVals pd.trailingIdx p1
      (p2, r.map fun _ => ())

/-- `react` -/
def react (c : Cmd) (ident : Option Ident) (source : Source) (a : Arg) (rawVals : List Bytes)
    (trailingIdx : Option Nat) (p : P) : R ParseResult :=
  match resolvePending c p with
  | (p1, .error e) => (p1, .error e)
  | (p1, .ok ()) => reactCore c ident source a rawVals trailingIdx p1

/-- `parse_opt_value` -/
def parseOptValue (c : Cmd) (ident : Ident) (attached : Option Bytes) (a : Arg) (hasEq : Bool) (p : P) : R ParseResult :=
  if a.requireEquals && !hasEq then
    if a.minVals == 0 then
      match react c (some ident) .cmdline a [] none p with
      | (p1, .error e) => (p1, .error e)
      | (p1, .ok r) =>
        if r != .valuesDone then (p1, .error (.panic "parse_opt_value: debug_assert_eq ValuesDone")) else
        (p1, .ok (if attached.isSome then .attachedValueNotConsumed else .valuesDone))
    else (p, .ok .equalsNotProvided)
  else match attached with
    | some v =>
      match react c (some ident) .cmdline a [v] none p with
      | (p1, .error e) => (p1, .error e)
      | (p1, .ok r) =>
        if r != .valuesDone then (p1, .error (.panic "parse_opt_value: debug_assert_eq ValuesDone")) else (p1, .ok .valuesDone)
    | none =>
      match resolvePending c p with
      | (p1, .error e) => (p1, .error e)
      | (p1, .ok ()) =>
        match pendingPush p1 a.id (some ident) false none with
        | (p2, .error e) => (p2, .error e)
        | (p2, .ok ()) => (p2, .ok (.opt a.id))

/-- `possible_subcommand` -/
def possibleSubcommand (c : Cmd) (arg : Bytes) (validArgFound : Bool) : Option Bytes :=
  if !Utf8.valid arg then none else
  if c.settings.argsConflictsWithSubcommands && validArgFound then none else
  let inferred : Option Bytes :=
    if c.settings.inferSubcommands then
      let cands := c.subs.filterMap fun s =>
        if Bytes.startsWith s.name arg then some s.name
        else (s.aliases.find? fun al => Bytes.startsWith al arg)
      match cands with
      | [n] => some n
      | _ => none
    else none
  match inferred with
  | some n => some n
  | none => (c.findSubcommand arg).map Cmd.name

/-- `possible_long_flag_subcommand` -/
def possibleLongFlagSubcommand (c : Cmd) (arg : Bytes) : Option Bytes :=
  let inferred : Option Bytes :=
    if c.settings.inferSubcommands then
      let cands := c.subs.filterMap fun sc =>
        match sc.longFlag with
        | none => none
        | some long =>
          if Bytes.startsWith long arg then some sc.name
          else if sc.longFlagAliases.any fun al => Bytes.startsWith al arg then some sc.name else none
      match cands with
      | [n] => some n
      | _ => none
    else none
  match inferred with
  | some n => some n
  | none => c.findLongSubcmd arg

/-- the state's arg (`self.cmd[opt]`) allows hyphen values; `none` = the index `expect` failed -/
def stateArg (c : Cmd) : ParseState → Option (Option Arg)
  | .valuesDone => some none
  | .opt id => (c.find id).map some
  | .pos id => (c.find id).map some

/-- does a long or alias of the arg start with the typed text? (`infer_long_args`) -/
def prefixMatches (a : Arg) (longArg : Bytes) : Bool :=
  (match a.long with | some l => Bytes.startsWith l longArg | none => false) || a.aliases.any fun al => Bytes.startsWith al longArg

/-- the arg a long flag names: an exact key wins; otherwise, with `infer_long_args`, the
unique arg one of whose longs/aliases starts with the text; otherwise nothing -/
def findLong (c : Cmd) (longArg : Bytes) : Option Arg :=
  match c.getLong longArg with
  | some a => some a
  | none =>
    if c.settings.inferLongArgs then
      match c.args.filter fun a => prefixMatches a longArg with
      | [a] => some a
      | _ => none
    else none

/-- `parse_long_arg` -/
def parseLongArg (c : Cmd) (longArg : Bytes) (longIsUtf8 : Bool) (longValue : Option Bytes) (st : ParseState)
    (posCounter : Nat) (validArgFound : Bool) (p : P) : R (ParseResult × Bool) :=
  match stateArg c st with
  | none => (p, .error (.panic "cmd[opt]: expect"))
  | some sa =>
  if (sa.map (·.allowHyphen)).getD false then (p, .ok (.maybeHyphenValue, validArgFound)) else
  if !longIsUtf8 then (p, .ok (.noMatchingArg, validArgFound)) else
  if longArg.isEmpty && longValue.isNone then (p, .error (.panic "parse_long_arg: `--` should be filtered out")) else
  match findLong c longArg with
  | some a =>
    if a.takesValue then
      match parseOptValue c .long longValue a longValue.isSome p with
      | (p1, .error e) => (p1, .error e)
      | (p1, .ok r) => (p1, .ok (r, true))
    else if longValue.isSome then (p, .ok (.unneededAttachedValue, true))
    else
      match react c (some .long) .cmdline a [] none p with
      | (p1, .error e) => (p1, .error e)
      | (p1, .ok r) => (p1, .ok (r, true))
  | none =>
    match possibleLongFlagSubcommand c longArg with
    | some n => (p, .ok (.flagSubCommand n, validArgFound))
    | none =>
      if ((c.getPos posCounter).map fun a => a.allowHyphen && !a.last).getD false
      then (p, .ok (.maybeHyphenValue, validArgFound))
      else (p, .ok (.noMatchingArg, validArgFound))

/-- the value attached to a short option (`-ovalue`, `-o=value`): the rest of the cluster, if not empty, with a
leading `=` stripped; and whether there was a `=` -/
def shortAttached (sf1 : ShortFlags) : Option Bytes × Bool :=
  let val0 : Bytes := (sf1.nextValueOs.2).getD []
  let val : Option Bytes := if val0.isEmpty then none else some val0
  match val.bind fun v => Bytes.stripPrefix v [Bytes.eq] with
  | some v => (some v, true)
  | none => (val, false)

/-- the `while let Some(c) = short_arg.next_flag()` loop of `parse_short_arg`;
structural on the unread characters of the cluster -/
def shortLoop (c : Cmd) : ShortFlags → Nat → Nat → ParseResult → Bool → P → R (ParseResult × Bool)
  | sf, fuel, consumed, ret, vaf, p =>
  match fuel with
  | 0 => (p, .ok (ret, vaf))
  | fuel+1 =>
    match sf.nextFlag with
    | (_, .done) => (p, .ok (ret, vaf))
    | (_, .bad _) => (p, .ok (.noMatchingArg, vaf))
    | (sf1, .ch ch) =>
      match c.getShort ch with
      | some a =>
        if !a.takesValue then
          match react c (some .short) .cmdline a [] none p with
          | (p1, .error e) => (p1, .error e)
          | (p1, .ok r) => shortLoop c sf1 fuel (consumed + 1) r true p1
        else
          let vh := shortAttached sf1
          match parseOptValue c .short vh.1 a vh.2 p with
          | (p1, .error e) => (p1, .error e)
          | (p1, .ok .attachedValueNotConsumed) => shortLoop c sf1 fuel (consumed + 1) ret true p1
          | (p1, .ok x) => (p1, .ok (x, true))
      | none =>
        match c.findShortSubcmd ch with
        | some name =>
          match resolvePending c p with
          | (p1, .error e) => (p1, .error e)
          | (p1, .ok ()) =>
            let cur := p1.curIdx + 1
            let fsAt := p1.flagSubAt.getD cur
            let p2 := { p1 with curIdx := cur, flagSubAt := if sf1.isEmpty then none else some fsAt,
                                flagSubConsumed := consumed + 1 }
            (p2, .ok (.flagSubCommand name, vaf))
        | none => (p, .ok (.noMatchingArg, vaf))

/-- `parse_short_arg` -/
def parseShortArg (c : Cmd) (sf : ShortFlags) (st : ParseState) (posCounter : Nat) (validArgFound : Bool) (p : P) :
    R (ParseResult × Bool) :=
  match stateArg c st with
  | none => (p, .error (.panic "cmd[opt]: expect"))
  | some sa =>
  -- a group revisited after its flag subcommand (`flag_subcmd_skip != 0`) is always read as flags
  let revisiting := p.flagSubSkip != 0
  if !revisiting && (sa.map fun a => a.allowHyphen || (a.allowNegative && sf.isNegativeNumber)).getD false then
    (p, .ok (.maybeHyphenValue, validArgFound))
  else if !revisiting && ((c.getPos posCounter).map (·.allowNegative)).getD false && sf.isNegativeNumber then
    (p, .ok (.maybeHyphenValue, validArgFound))
  else if !revisiting && ((c.getPos posCounter).map fun a => a.allowHyphen && !a.last).getD false &&
      ((sf.chars.any fun ch => !c.containsShort ch) || sf.invalid.isSome) then
    (p, .ok (.maybeHyphenValue, validArgFound))
  else
    let skip := p.flagSubSkip
    let p0 := { p with flagSubSkip := 0 }
    match ShortFlags.advanceBy skip 0 sf with
    | (_, some _) => (p0, .error (.panic "tracking of `flag_subcmd_skip` is off"))
    | (sf1, none) => shortLoop c sf1 (sf1.chars.length + 2) skip .noArg validArgFound p0

/-- `is_new_arg` -/
def isNewArg (next : Bytes) (cur : Arg) : Bool :=
  if cur.allowHyphen || (cur.allowNegative && ParsedArg.isNegativeNumber next) then false
  else if ParsedArg.isLong next then true
  else if ParsedArg.isShort next then true
  else false

/-- `parse_help_subcommand`: walk the named subcommands; structural on the token list -/
def helpWalk : Cmd → List Bytes → EK
  | _, [] => .displayHelp
  | c, t :: ts =>
    match c.findSubcommand t with
    | some sc => helpWalk sc ts
    | none => .invalidSubcommand

/-- how the token loop of `Parser::parse` ended -/
inductive LoopEnd
  | done                                            -- argv exhausted
  | sub (name : Bytes) (rest : List Bytes) (keepState : Bool) (validArgFound : Bool)
  | external (name : Bytes) (rest : List Bytes)
deriving Repr

structure LoopSt where
  st : ParseState := .valuesDone
  posCounter : Nat := 1
  validArgFound : Bool := false
  trailing : Bool := false
deriving Repr

/-- check_terminator -/
def isTerminator (a : Arg) (v : Bytes) : Bool := a.terminator == some v

/-- the "Correct pos_counter" block -/
def correctPosCounter (c : Cmd) (ls : LoopSt) (peek : Option Bytes) : Nat :=
  let positionalCount := c.positionalCount
  let containsLast := c.args.any (·.last)
  let isSecondToLast := ls.posCounter + 1 == positionalCount
  let lowIndexMults := isSecondToLast &&
    (c.positionals.any fun a => a.isMultiple && positionalCount != a.index.getD 0) &&
    ((c.positionals.getLast?.map fun a => !a.last).getD false)
  let isTerminated := ((c.getPos ls.posCounter).map fun a => a.terminator.isSome).getD false
  let missingPos := c.settings.allowMissingPositional && isSecondToLast && !ls.trailing
  if (lowIndexMults || missingPos) && !isTerminated then
    let skipCurrent : Bool :=
      match peek with
      | some n =>
        match c.positionals.find? fun a => a.index == some ls.posCounter with
        | some a => isNewArg n a || (possibleSubcommand c n ls.validArgFound).isSome
        | none => true
      | none => true
    if skipCurrent then ls.posCounter + 1 else ls.posCounter
  else if ls.trailing && (c.settings.allowMissingPositional || containsLast) then positionalCount
  else ls.posCounter

/-- `match_arg_error` (by kind; `UnknownArgument` vs `InvalidSubcommand` depends on the
similarity oracle `similar`, which decides whether `did_you_mean` finds a candidate) -/
def matchArgError (c : Cmd) (similar : Bytes → Bytes → Bool) (tok : Bytes) (ls : LoopSt) : EK :=
  if ls.trailing && (possibleSubcommand c tok ls.validArgFound).isSome then .unknownArgument else
  if c.hasSubcommands then
    if c.settings.argsConflictsWithSubcommands && ls.validArgFound then .argumentConflict
    else if c.allSubcommandNames.any (similar tok) then .invalidSubcommand
    else if !c.hasPositionals || c.settings.inferSubcommands then .invalidSubcommand
    else .unknownArgument
  else .unknownArgument

/-- the positional / external-subcommand / error part of one loop step, shared by several paths;
`k` is the rest of the loop (`loop` on the remaining tokens) -/
def positionalPart (c : Cmd) (similar : Bytes → Bytes → Bool) (tok : Bytes) (rest : List Bytes)
    (k : LoopSt → P → R LoopEnd) (ls : LoopSt) (p : P) : R LoopEnd :=
  let pc := correctPosCounter c ls rest.head?
  match c.getPos pc with
  | some a =>
    if a.last && !ls.trailing then
      ((resolvePending c p).1, .error .unknownArgument)
    else
      let trailing := ls.trailing || a.trailingVarArg
      let r1 : R Unit :=
        if (p.pending.map (·.id)) != some a.id || !a.isMultipleValues then resolvePending c p else (p, .ok ())
      match r1 with
      | (p1, .error e) => (p1, .error e)
      | (p1, .ok ()) =>
        if isTerminator a tok then
          k { ls with st := .valuesDone, posCounter := pc + 1, validArgFound := true, trailing := trailing } p1
        else
          match pendingPush p1 a.id (some .index) trailing (some tok) with
          | (p2, .error e) => (p2, .error e)
          | (p2, .ok ()) =>
            if !a.isMultiple then
              k { ls with st := .valuesDone, posCounter := pc + 1, validArgFound := true, trailing := trailing } p2
            else
              k { ls with st := .pos a.id, posCounter := pc, validArgFound := true, trailing := trailing } p2
  | none =>
    if c.settings.allowExternalSubcommands then
      if !Utf8.valid tok then ((resolvePending c p).1, .error .invalidUtf8)
      else (p, .ok (.external tok rest))
    else
      ((resolvePending c p).1, .error (matchArgError c similar tok { ls with posCounter := pc }))

/-- the token is a value of the option that is waiting for values (else: the positional part) -/
def optValuePart (c : Cmd) (similar : Bytes → Bytes → Bool) (tok : Bytes) (rest : List Bytes)
    (k : LoopSt → P → R LoopEnd) (ls : LoopSt) (p : P) : R LoopEnd :=
  match ls.st with
  | .opt id =>
    match c.find id with
    | none => (p, .error (.panic "cmd[id]: expect"))
    | some a =>
      if isTerminator a tok then k { ls with st := .valuesDone } p
      else
        match pendingPush p id none false (some tok) with
        | (p1, .error e) => (p1, .error e)
        | (p1, .ok ()) =>
          if needsMoreVals p1 a then k { ls with st := .opt a.id } p1
          else k { ls with st := .valuesDone } p1
  | _ => positionalPart c similar tok rest k ls p

/-- one token of the `while let Some(arg_os) = raw_args.next(..)` loop; structural on the token list -/
def loop (c : Cmd) (similar : Bytes → Bytes → Bool) : LoopSt → List Bytes → P → R LoopEnd
  | _, [], p => (p, .ok .done)
  | ls, tok :: rest, p =>
    let k : LoopSt → P → R LoopEnd := fun ls p => loop c similar ls rest p
    let positionalPart := Parser.positionalPart c similar tok rest k
    let optValuePart := Parser.optValuePart c similar tok rest k
    if ls.trailing then positionalPart ls p else
    -- subcommand?
    let scCheck : Option Bytes :=
      if c.settings.subcommandPrecedenceOverArg || ls.st == .valuesDone
      then possibleSubcommand c tok ls.validArgFound else none
    match scCheck with
    | some sc =>
      if sc == Build.b_help && !c.settings.disableHelpSubcommand then (p, .error (helpWalk c rest))
      else (p, .ok (.sub sc rest false ls.validArgFound))
    | none =>
    if ParsedArg.isEscape tok then
      match stateArg c ls.st with
      | none => (p, .error (.panic "cmd[opt]: expect"))
      | some sa =>
        if (sa.map (·.allowHyphen)).getD false then optValuePart ls p
        else k { ls with trailing := true } (startTrailing p)
    else match ParsedArg.toLong tok with
    | some (longArg, isUtf8, longValue) =>
      match parseLongArg c longArg isUtf8 longValue ls.st ls.posCounter ls.validArgFound p with
      | (p1, .error e) => (p1, .error e)
      | (p1, .ok (r, vaf)) =>
        let ls := { ls with validArgFound := vaf }
        match r with
        | .noArg => (p1, .error (.panic "unreachable: `to_long` always has the flag specified"))
        | .valuesDone => k { ls with st := .valuesDone } p1
        | .opt id => k { ls with st := .opt id } p1
        | .flagSubCommand name => (p1, .ok (.sub name rest false ls.validArgFound))
        | .equalsNotProvided => ((resolvePending c p1).1, .error .noEquals)
        | .noMatchingArg => ((resolvePending c p1).1, .error .unknownArgument)
        | .unneededAttachedValue => ((resolvePending c p1).1, .error .tooManyValues)
        | .maybeHyphenValue => optValuePart ls p1
        | .attachedValueNotConsumed => (p1, .error (.panic "unreachable: AttachedValueNotConsumed (long)"))
    | none =>
    match ParsedArg.toShort tok with
    | some sf =>
      match parseShortArg c sf ls.st ls.posCounter ls.validArgFound p with
      | (p1, .error e) => (p1, .error e)
      | (p1, .ok (r, vaf)) =>
        let ls := { ls with validArgFound := vaf }
        match r with
        | .noArg => optValuePart ls p1
        | .valuesDone => k { ls with st := .valuesDone } p1
        | .opt id => k { ls with st := .opt id } p1
        | .flagSubCommand name =>
          match p1.flagSubAt with
          | some _ =>
            -- keep_state: revisit this cluster in the subcommand, skipping the flags already consumed
            -- (after the `fix:` for finding F16 the count is kept directly; it used to be `cur_idx - at + 1`,
            -- which is only right when the flag subcommand is the first flag of the cluster)
            ({ p1 with flagSubSkip := p1.flagSubConsumed }, .ok (.sub name (tok :: rest) true ls.validArgFound))
          | none => (p1, .ok (.sub name rest false ls.validArgFound))
        | .equalsNotProvided => ((resolvePending c p1).1, .error .noEquals)
        | .noMatchingArg => ((resolvePending c p1).1, .error .unknownArgument)
        | .maybeHyphenValue => optValuePart ls p1
        | .unneededAttachedValue => (p1, .error (.panic "unreachable: UnneededAttachedValue (short)"))
        | .attachedValueNotConsumed => (p1, .error (.panic "unreachable: AttachedValueNotConsumed (short)"))
    | none => optValuePart ls p

/-! ### env, defaults -/

/-- `add_env` -/
def addEnv (c : Cmd) : List Arg → P → R Unit
  | [], p => (p, .ok ())
  | a :: as, p =>
    if p.args.contains a.id then addEnv c as p else
    match a.env with
    | some (some val) =>
      match react c none .env a [val] none p with
      | (p1, .error e) => (p1, .error e)
      | (p1, .ok _) => addEnv c as p1
    | _ => addEnv c as p

/-- the condition of one conditional default: the trigger arg is in the matcher (with any source) and, for
`Equals`, one of its raw values is the given one -/
def defaultIfApplies (p : P) (id : Id) (pred : Pred) : Bool :=
  match p.args.get id with
  | some ma => (match pred with | .equals v => ma.rawFlat.any (· == v) | .isPresent => true)
  | none => false

/-- the `for (id, val, default) in arg.default_vals_ifs` loop -/
def defaultIfLoop (c : Cmd) (a : Arg) : List (Id × Pred × Option Bytes) → P → Option (R Unit)
  | [], _ => none
  | (id, pred, dflt) :: more, p =>
    if defaultIfApplies p id pred then
      match dflt with
      | some d =>
        match react c none .default a [d] none p with
        | (p1, .error e) => some (p1, .error e)
        | (p1, .ok _) => some (p1, .ok ())
      | none => some (p, .ok ())
    else defaultIfLoop c a more p

/-- `add_default_value` -/
def addDefaultValue (c : Cmd) (a : Arg) (p : P) : R Unit :=
  let viaIf : Option (R Unit) :=
    if !a.defaultIfs.isEmpty && !p.args.contains a.id then defaultIfLoop c a a.defaultIfs p else none
  match viaIf with
  | some r => r
  | none =>
    if !a.defaultVals.isEmpty && !p.args.contains a.id then
      match react c none .default a a.defaultVals none p with
      | (p1, .error e) => (p1, .error e)
      | (p1, .ok _) => (p1, .ok ())
    else (p, .ok ())

def addDefaults (c : Cmd) : List Arg → P → R Unit
  | [], p => (p, .ok ())
  | a :: as, p =>
    match addDefaultValue c a p with
    | (p1, .error e) => (p1, .error e)
    | (p1, .ok ()) => addDefaults c as p1

end Parser
end Clap
