/-
`#[derive(Parser/Args)]` field handling (`clap_derive/src/derives/args.rs`
`gen_parsers`, `gen_augment`; `item.rs` `default_action`), interpreted from the
per-shape rows that the translator re-extracts into `Gen/DeriveTables.lean`,
and `ValueEnum::from_str` (`clap_builder/src/derive.rs`,
`PossibleValue::matches`).
-/
import ClapModel.Gen.DeriveTables
import ClapModel.Bytes
namespace Clap
namespace Derive
open Gen

/-- what `ArgMatches` holds for one id: `none` = no entry, else the values of each occurrence -/
abbrev Entry := Option (List (List Bytes))

inductive Val
  | unit
  | one (v : Bytes)
  | opt (v : Option Bytes)
  | optOpt (v : Option (Option Bytes))
  | vec (v : List Bytes)
  | optVec (v : Option (List Bytes))
  | vecVec (v : List (List Bytes))
  | optVecVec (v : Option (List (List Bytes)))
deriving Repr, DecidableEq

inductive Err | missingRequired
deriving Repr, DecidableEq

/-- `remove_one`: the first value -/
def removeOne (e : Entry) : Option Bytes := e.bind fun gs => gs.flatten.head?
/-- `remove_many`: all values -/
def removeMany (e : Entry) : Option (List Bytes) := e.map List.flatten
/-- `remove_occurrences` -/
def removeOccurrences (e : Entry) : Option (List (List Bytes)) := e

def rowOf (t : DTy) : Option DeriveRow := deriveRows.find? fun r => r.ty == t

/-- the field value `gen_parsers` computes from the matches, as an interpretation of the extracted row -/
def extract (r : DeriveRow) (e : Entry) : Except Err Val :=
  match r.accessor with
  | .unit => .ok .unit
  | .one =>
    if r.guardContains then .ok (.optOpt (if e.isSome then (if r.wrapSome then some (removeOne e) else none) else none))
    else if r.requiredErr then (match removeOne e with | some v => .ok (.one v) | none => .error .missingRequired)
    else .ok (.opt (removeOne e))
  | .many =>
    let all := if r.defaultEmpty then some ((removeMany e).getD []) else removeMany e
    if r.guardContains then .ok (.optVec (if e.isSome then (if r.wrapSome then all else none) else none))
    else .ok (.vec (all.getD []))
  | .occ =>
    if r.defaultEmpty then .ok (.vecVec ((removeOccurrences e).getD [])) else .ok (.optVecVec (removeOccurrences e))

/-- `update_from_arg_matches` for one field: assign only under `contains_id` -/
def update (r : DeriveRow) (old : Val) (e : Entry) : Except Err Val :=
  if updateGuardedByContainsId then (if e.isSome then extract r e else .ok old) else extract r e

/-! ### the updater of an `Option<subcommand>` field (`gen_updater`, `Kind::Subcommand` / `Ty::Option`, with the
enum's own `update_from_arg_matches_mut`: same variant = in place, other variant = rebuilt) for enums whose variants
have optional leaves only; the two decisions of the generated arm come from `Gen/DeriveTables` -/

/-- a value of the enum: variant name and its (optional) fields -/
structure SubVal where
  name : Bytes
  fields : List (Bytes × Option Bytes)
deriving Repr, DecidableEq

/-- the subcommand on the update line: its name and the options given -/
structure SubLine where
  name : Bytes
  given : List (Bytes × Bytes)
deriving Repr, DecidableEq

inductive UErr | missingSubcommand
deriving Repr, DecidableEq

def lookupGiven (l : SubLine) (f : Bytes) : Option Bytes := (l.given.find? fun p => p.1 == f).map (·.2)

/-- `from_arg_matches_mut` of the enum: every field from the line -/
def buildSub (schema : Bytes → List Bytes) (l : SubLine) : SubVal :=
  ⟨l.name, (schema l.name).map fun f => (f, lookupGiven l f)⟩

/-- the variant's fields updated in place: only what the line names changes -/
def mergeSub (v : SubVal) (l : SubLine) : SubVal :=
  ⟨v.name, v.fields.map fun p => (p.1, match lookupGiven l p.1 with | some x => some x | none => p.2)⟩

/-- the enum's `update_from_arg_matches_mut` -/
def updateSub (schema : Bytes → List Bytes) (v : SubVal) (l : SubLine) : SubVal :=
  if v.name == l.name then mergeSub v l else buildSub schema l

/-- the generated updater of the `Option<enum>` field -/
def updateOptSub (schema : Bytes → List Bytes) (cur : Option SubVal) (line : Option SubLine) : Except UErr (Option SubVal) :=
  match cur, line with
  | some v, none => .ok (some v)
  | some v, some l => .ok (some (if optSubMergesExisting then updateSub schema v l else buildSub schema l))
  | none, some l => .ok (some (buildSub schema l))
  | none, none => if optSubBuildsOnlyWhenNamed then .ok none else .error .missingSubcommand

/-- the entry the parser leaves for the canonical command line of a value (no default, no env):
`Set` keeps the last occurrence, `Append` one group per occurrence -/
def store : Val → Entry
  | .unit => none
  | .one v => some [[v]]
  | .opt none => none
  | .opt (some v) => some [[v]]
  | .optOpt none => none
  | .optOpt (some none) => some [[]]            -- `--flag` with `num_args(0..=1)` and no value
  | .optOpt (some (some v)) => some [[v]]
  | .vec [] => none
  | .vec vs => some (vs.map fun v => [v])       -- `--flag v` once per element
  | .optVec none => none
  | .optVec (some vs) => some (vs.map fun v => [v])
  | .vecVec [] => none
  | .vecVec gs => some gs
  | .optVecVec none => none
  | .optVecVec (some gs) => some gs

/-- values the canonical printer can express -/
def WellFormed : Val → Bool
  | .optVec (some []) => false        -- `Some(vec![])` needs an occurrence without values
  | .vecVec gs => gs.all (!·.isEmpty)
  | .optVecVec (some gs) => !gs.isEmpty && gs.all (!·.isEmpty)
  | _ => true

def shapeOf : Val → DTy
  | .unit => .unit | .one _ => .other | .opt _ => .option | .optOpt _ => .optionOption | .vec _ => .vec
  | .optVec _ => .optionVec | .vecVec _ => .vecVec | .optVecVec _ => .optionVecVec

/-! ### value enums -/

structure Variant where
  id : Nat
  names : List Bytes         -- name, then aliases (`get_name_and_aliases`)
deriving Repr, DecidableEq

def asciiLowerB (s : Bytes) : Bytes := s.map fun b => if 65 ≤ b && b ≤ 90 then b + 32 else b

/-- `PossibleValue::matches` (ASCII case folding for `ignore_case`) -/
def vmatches (v : Variant) (input : Bytes) (ignoreCase : Bool) : Bool :=
  if ignoreCase then v.names.any fun n => asciiLowerB n == asciiLowerB input else v.names.contains input

/-- `ValueEnum::from_str`: the first variant (skipped ones are not in `value_variants`) that matches -/
def fromStr (vs : List Variant) (input : Bytes) (ignoreCase : Bool) : Option Nat :=
  (vs.find? fun v => vmatches v input ignoreCase).map (·.id)

end Derive
end Clap
