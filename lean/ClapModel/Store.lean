/-
L2 store: typed access to `ArgMatches` (`parser/matches/arg_matches.rs`
`try_get_one/many`, `try_remove_one/many`, `try_get_raw`, `try_contains_id`,
`try_clear_id`) over the insertion-ordered `FlatMap` (`util/flat_map.rs`).
Values are represented by their raw strings; what matters here is the type tag.
-/
import ClapModel.Bytes
namespace Clap
namespace Store

inductive Ty | string | i64 | bool | u8
deriving Repr, DecidableEq

structure Entry where
  ty : Ty                -- `MatchedArg::type_id` (set from the arg's value parser)
  vals : List Bytes      -- flattened values, as raw strings
deriving Repr, DecidableEq

structure St where
  valid : List Bytes               -- `valid_args` (ids of the command's args and groups)
  args : List (Bytes × Entry)      -- `FlatMap<Id, MatchedArg>`: insertion order
deriving Repr, DecidableEq

inductive Op
  | getOne (id : Bytes) (t : Ty) | getMany (id : Bytes) (t : Ty)
  | removeOne (id : Bytes) (t : Ty) | removeMany (id : Bytes) (t : Ty)
  | getRaw (id : Bytes) | contains (id : Bytes) | clear (id : Bytes)
deriving Repr, DecidableEq

inductive Res
  | absent                       -- `Ok(None)`
  | one (v : Option Bytes)       -- `Ok(Some(first))` (`None` if the arg holds no value)
  | many (vs : List Bytes)
  | bool (b : Bool)
  | errDowncast | errUnknown
deriving Repr, DecidableEq

def lookup (s : St) (id : Bytes) : Option Entry := (s.args.find? fun p => p.1 == id).map (·.2)

/-- `FlatMap::remove_entry`: removes the first entry with that key, keeping the order of the rest -/
def removeKey (id : Bytes) : List (Bytes × Entry) → List (Bytes × Entry)
  | [] => []
  | p :: ps => if p.1 == id then ps else p :: removeKey id ps

/-- `verify_arg` (debug builds): the id must be one of the command's ids -/
def known (s : St) (id : Bytes) : Bool := s.valid.contains id

/-- `try_get_arg_t` -/
def getT (s : St) (id : Bytes) (t : Ty) : Except Res (Option Entry) :=
  if !known s id then .error .errUnknown else
  match lookup s id with
  | none => .ok none
  | some e => if e.ty == t then .ok (some e) else .error .errDowncast

def step (s : St) : Op → St × Res
  | .getOne id t =>
    match getT s id t with
    | .error r => (s, r)
    | .ok none => (s, .absent)
    | .ok (some e) => (s, match e.vals with | [] => .absent | v :: _ => .one (some v))
  | .getMany id t =>
    match getT s id t with
    | .error r => (s, r)
    | .ok none => (s, .absent)
    | .ok (some e) => (s, .many e.vals)
  | .removeOne id t =>
    -- `try_remove_arg_t` (after the `fix:` for finding F3: the type is checked
    -- *before* the entry is taken out; it used to remove, check, and re-insert
    -- at the end on mismatch)
    match getT s id t with
    | .error r => (s, r)
    | .ok none => (s, .absent)
    | .ok (some e) => ({ s with args := removeKey id s.args }, match e.vals with | [] => .absent | v :: _ => .one (some v))
  | .removeMany id t =>
    match getT s id t with
    | .error r => (s, r)
    | .ok none => (s, .absent)
    | .ok (some e) => ({ s with args := removeKey id s.args }, .many e.vals)
  | .getRaw id =>
    if !known s id then (s, .errUnknown) else
    match lookup s id with
    | none => (s, .absent)
    | some e => (s, .many e.vals)
  | .contains id =>
    if !known s id then (s, .errUnknown) else (s, .bool (lookup s id).isSome)
  | .clear id =>
    if !known s id then (s, .errUnknown) else
    ({ s with args := removeKey id s.args }, .bool (lookup s id).isSome)

def run : St → List Op → List (Res × List Bytes)
  | _, [] => []
  | s, op :: ops =>
    let (s', r) := step s op
    (r, s'.args.map (·.1)) :: run s' ops

end Store
end Clap
