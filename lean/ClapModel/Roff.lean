/-
The `roff` crate's renderer as `clap_mangen` uses it (`roff-0.2.1/src/lib.rs`:
`Roff::to_writer`, `Line::render` with `Apostrophes::Handle`, `escape_inline`,
`escape_apostrophes`, `escape_leading_cc`, `escape_spaces`).
-/
import ClapModel.Bytes
namespace Clap
namespace Roff

inductive Inline
  | roman (t : Bytes)
  | italic (t : Bytes)
  | bold (t : Bytes)
  | lineBreak
deriving Repr, DecidableEq

inductive Line
  | control (name : Bytes) (args : List Bytes)
  | text (inl : List Inline)
deriving Repr, DecidableEq

/-- `escape_inline`: `\` → `\\`, then `-` → `\-` (the second replace never sees a new `-`) -/
def escapeInline : Bytes → Bytes
  | [] => []
  | b :: r => if b == 92 then 92 :: 92 :: escapeInline r else if b == 45 then 92 :: 45 :: escapeInline r else b :: escapeInline r

/-- `escape_apostrophes`: `'` → `\*(Aq` -/
def escapeApostrophes : Bytes → Bytes
  | [] => []
  | b :: r => if b == 39 then 92 :: 42 :: 40 :: 65 :: 113 :: escapeApostrophes r else b :: escapeApostrophes r

/-- `s.replace("\n.", "\n\\&.")`: at a newline followed by `.`, `\&` is inserted after the newline
(the `.` itself is copied by the next step) -/
def escapeNlDot : Bytes → Bytes
  | [] => []
  | b :: r => if b == 10 && r.head? == some 46 then 10 :: 92 :: 38 :: escapeNlDot r else b :: escapeNlDot r

/-- `s.replace("\n'", "\n\\&'")` -/
def escapeNlApos : Bytes → Bytes
  | [] => []
  | b :: r => if b == 10 && r.head? == some 39 then 10 :: 92 :: 38 :: escapeNlApos r else b :: escapeNlApos r

/-- the text of one inline as written: `escape_inline`, `escape_apostrophes`, `escape_leading_cc` -/
def escText (t : Bytes) : Bytes := escapeNlApos (escapeNlDot (escapeApostrophes (escapeInline t)))

def isCc (b : UInt8) : Bool := b == 46 || b == 39

def startsWithCc : Bytes → Bool
  | b :: _ => isCc b
  | [] => false

/-- the loop of `Line::render` over the inlines; `als` is its `at_line_start` flag -/
def renderInlines : Bool → List Inline → Bytes
  | _, [] => []
  | als, .lineBreak :: r => (if als then [46, 98, 114, 10] else [10, 46, 98, 114, 10]) ++ renderInlines false r
  | als, .roman t :: r =>
    (if als && startsWithCc (escText t) then [92, 38] else []) ++ escText t ++ renderInlines false r
  | _, .bold t :: r => [92, 102, 66] ++ escText t ++ [92, 102, 82] ++ renderInlines false r
  | _, .italic t :: r => [92, 102, 73] ++ escText t ++ [92, 102, 82] ++ renderInlines false r

/-- `escape_spaces` -/
def escapeSpaces (w : Bytes) : Bytes := if w.contains 32 then [34] ++ w ++ [34] else w

def renderControlArgs : List Bytes → Bytes
  | [] => []
  | a :: r => 32 :: escapeSpaces a ++ renderControlArgs r

def renderLine : Line → Bytes
  | .control name args => 46 :: name ++ renderControlArgs args ++ [10]
  | .text inl => renderInlines true inl ++ [10]

/-- `APOSTROPHE_PREABMLE` -/
def preamble : Bytes :=
  [46, 105, 101, 32, 92, 110, 40, 46, 103, 32, 46, 100, 115, 32, 65, 113, 32, 92, 40, 97, 113, 10,
   46, 101, 108, 32, 46, 100, 115, 32, 65, 113, 32, 39, 10]

def renderLines : List Line → Bytes
  | [] => []
  | l :: r => renderLine l ++ renderLines r

/-- `Roff::to_writer` -/
def render (lines : List Line) : Bytes := preamble ++ renderLines lines

/-! ### what roff will treat as a request: a line whose first byte is `.` or `'` -/

/-- number of lines that start with a control character; `st` = the next byte starts a line -/
def ccCount : Bool → Bytes → Nat
  | _, [] => 0
  | st, b :: r => (if st && isCc b then 1 else 0) + ccCount (b == 10) r

/-- does the output (read from state `st`) end at a line start? -/
def endsAtLineStart : Bool → Bytes → Bool
  | st, [] => st
  | _, b :: r => endsAtLineStart (b == 10) r

end Roff
end Clap
