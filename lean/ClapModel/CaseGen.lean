/-
The elvish and PowerShell generators (`clap_complete/src/aot/shells/elvish.rs`,
`powershell.rs`): both walk the command tree with `generate_inner`, emitting
one `case` per subcommand path *spelling* (`prog;sub;leaf`, names and visible
aliases) that lists the level's options, flags and subcommands.
Text is `List Char`; the escapers are the extracted chains.
-/
import ClapModel.ShellLex
import ClapModel.Gen.CaseTemplates
namespace Clap
namespace CaseGen
open Shell

structure COpt where
  shorts : List Str := []      -- `get_short_and_visible_aliases` (empty = `None`)
  longs : List Str := []       -- `get_long_and_visible_aliases`
  help : Option Str := none
  takes : Bool := false        -- `get_opts` (takes values) vs `utils::flags`
deriving Repr, DecidableEq

inductive CNode
  | mk (names : List Str) (about : Option Str) (opts : List COpt) (subs : List CNode)
deriving Repr

namespace CNode
/-- name and visible aliases -/
def names : CNode → List Str | mk n .. => n
def about : CNode → Option Str | mk _ a .. => a
/-- non-positional args in definition order -/
def opts : CNode → List COpt | mk _ _ o _ => o
def subs : CNode → List CNode | mk _ _ _ s => s
end CNode

inductive Sh2 | elvish | pwsh
deriving Repr, DecidableEq

/-- `escape_help(help, data)` of the two generators -/
def tooltip : Sh2 → Option Str → Str → Str
  | .elvish, some h, _ => applyChain Gen.elvishEscapeString (applyChain Gen.elvishHelpPre h)
  | .elvish, none, d => d
  | .pwsh, some h, d => if h.isEmpty then d else applyChain Gen.pwshEscapeString (applyChain Gen.pwshHelpPre h)
  | .pwsh, none, d => d

def s (x : String) : Str := x.toList

def isUpper (c : Char) : Bool := c.isUpper

/-- one candidate line for a short flag spelling -/
def shortCand : Sh2 → Str → Str → Str
  | .elvish, sh, tip => s "\n            cand " ++ ['-'] ++ sh ++ s " '" ++ tip ++ s "'"
  | .pwsh, sh, tip =>
    s "\n            [CompletionResult]::new(" ++ s "'-" ++ sh ++ s "', '-" ++ sh ++ (if sh.all Char.isUpper && !sh.isEmpty then s " " else []) ++
      s "', [CompletionResultType]::ParameterName, '" ++ tip ++ s "')"

def longCand : Sh2 → Str → Str → Str
  | .elvish, l, tip => s "\n            cand " ++ s "--" ++ l ++ s " '" ++ tip ++ s "'"
  | .pwsh, l, tip =>
    s "\n            [CompletionResult]::new(" ++ s "'--" ++ l ++ s "', '--" ++ l ++ s "', [CompletionResultType]::ParameterName, '" ++ tip ++ s "')"

def subCand : Sh2 → Str → Str → Str
  | .elvish, n, tip => s "\n            cand " ++ n ++ s " '" ++ tip ++ s "'"
  | .pwsh, n, tip =>
    s "\n            [CompletionResult]::new(" ++ s "'" ++ n ++ s "', '" ++ n ++ s "', [CompletionResultType]::ParameterValue, '" ++ tip ++ s "')"

/-- the candidates of one arg: shorts (tooltip falls back to the first short), then longs -/
def optCands (sh : Sh2) (o : COpt) : Str :=
  (o.shorts.flatMap fun x => shortCand sh x (tooltip sh o.help (o.shorts.headD []))) ++
  (o.longs.flatMap fun x => longCand sh x (tooltip sh o.help (o.longs.headD [])))

/-- the body of a level's case: options, then flags, then subcommand names and visible aliases -/
def completions (sh : Sh2) (n : CNode) : Str :=
  ((n.opts.filter (·.takes)).flatMap (optCands sh)) ++ ((n.opts.filter (!·.takes)).flatMap (optCands sh)) ++
  (n.subs.flatMap fun sc => sc.names.flatMap fun nm => subCand sh nm (tooltip sh sc.about nm))

def caseText : Sh2 → Str → Str → Str
  | .elvish, label, body => s "\n        &'" ++ label ++ s "'= {" ++ body ++ s "\n        }"
  | .pwsh, label, body => s "\n        '" ++ label ++ s "' {" ++ body ++ s "\n            break\n        }"

mutual
/-- `generate_inner(p, previous_command_name)` for a subcommand (non-empty previous name), for every
spelling `prev` of the path so far -/
def genInner (sh : Sh2) (prevs : List Str) : CNode → Str
  | .mk names about opts subs =>
    let labels := prevs.flatMap fun p => names.map fun nm => p ++ [';'] ++ nm
    (labels.flatMap fun l => caseText sh l (completions sh (.mk names about opts subs))) ++ genSubs sh labels subs
/-- the second loop of `generate_inner`: `for subcommand { for command_name { generate_inner(subcommand, command_name) } }` -/
def genSubs (sh : Sh2) (labels : List Str) : List CNode → Str
  | [] => []
  | sc :: rest => (labels.flatMap fun l => genInner sh [l] sc) ++ genSubs sh labels rest
end

/-- `generate_inner(cmd, "")` for the root: its single label is the bin name -/
def genRoot (sh : Sh2) (bin : Str) (root : CNode) : Str :=
  caseText sh bin (completions sh root) ++ genSubs sh [bin] root.subs

/-- the whole script: the extracted template with the bin name and the cases filled in -/
def script (sh : Sh2) (bin : Str) (root : CNode) : Str :=
  (match sh with | .elvish => Gen.elvishTemplate | .pwsh => Gen.pwshTemplate).flatMap fun (seg : Gen.TSeg) =>
    match seg with
    | Gen.TSeg.lit t => t
    | Gen.TSeg.bin => bin
    | Gen.TSeg.cases => genRoot sh bin root

end CaseGen
end Clap
