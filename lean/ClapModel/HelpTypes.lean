/-
The part of `Arg` / `Command` / `PossibleValue` that the help renderer
(`clap_builder/src/output/help_template.rs`) looks at.
-/
import ClapModel.Bytes
namespace Clap
namespace Help

structure PV where
  name : Bytes
  hide : Bool := false
  hasHelp : Bool := false
  w : Nat := 0                       -- `display_width(name)` (names may be non-ASCII)
deriving Repr, DecidableEq

structure HArg where
  id : Bytes
  short : Option Bytes := none       -- the char, UTF-8
  long : Option Bytes := none
  valNames : List Bytes := []
  minVals : Nat := 1
  maxVals : Option Nat := some 1     -- `none` = unbounded
  takesValue : Bool := false
  required : Bool := false
  isCount : Bool := false
  isAppend : Bool := false
  requireEquals : Bool := false
  hide : Bool := false
  hideShortHelp : Bool := false
  hideLongHelp : Bool := false
  nextLineHelp : Bool := false
  hidePossibleValues : Bool := false
  heading : Option Bytes := none
  helpW : Nat := 0                   -- display width of `get_help().or(get_long_help())`
  defaults : List Bytes := []
  hideDefault : Bool := false
  pvs : List PV := []
deriving Repr, DecidableEq

def HArg.isPositional (a : HArg) : Bool := a.long.isNone && a.short.isNone

structure HSub where
  name : Bytes
  shortFlag : Option Bytes := none
  longFlag : Option Bytes := none
  hide : Bool := false
  aboutW : Nat := 0
  specW : Nat := 0                   -- display width of `sc_spec_vals`
deriving Repr, DecidableEq

/-! ### `impl Display for Arg` (`arg.rs`: `stylized`, `stylize_arg_suffix`, `render_arg_val`), unstyled -/

def sp (n : Nat) : Bytes := List.replicate n 32

def intercalateB (sep : Bytes) : List Bytes → Bytes
  | [] => []
  | [x] => x
  | x :: xs => x ++ sep ++ intercalateB sep xs

/-- the names `render_arg_val` prints: the value names (the id when there are none), a single one repeated `max min 1` times -/
def valNamesShown (a : HArg) : List Bytes :=
  let names0 := if a.valNames.isEmpty then [a.id] else a.valNames
  match names0 with
  | [n] => List.replicate (max a.minVals 1) n
  | _ => names0

def bracket (a : HArg) (required : Bool) (n : Bytes) : Bytes :=
  if a.isPositional && (a.minVals == 0 || !required) then [91] ++ n ++ [93] else [60] ++ n ++ [62]

/-- `render_arg_val` -/
def renderArgVal (a : HArg) (required : Bool) : Bytes :=
  let names := valNamesShown a
  let extra := (match a.maxVals with | none => true | some m => decide (names.length < m)) || (a.isPositional && a.isAppend)
  intercalateB [32] (names.map (bracket a required)) ++ (if extra then [46, 46, 46] else [])

/-- `stylize_arg_suffix(None)` -/
def argSuffix (a : HArg) : Bytes :=
  let optVal := a.minVals == 0
  let start : Bytes :=
    if a.takesValue && !a.isPositional then
      (if a.requireEquals then (if optVal then [91, 61] else [61]) else (if optVal then [32, 91] else [32]))
    else []
  let close : Bytes := if a.takesValue && !a.isPositional && optVal then [93] else []
  let mid : Bytes :=
    if a.takesValue || a.isPositional then renderArgVal a a.required
    else if a.isCount then [46, 46, 46] else []
  start ++ mid ++ close

/-- `Arg::to_string()` -/
def display (a : HArg) : Bytes :=
  (match a.long with
   | some l => [45, 45] ++ l
   | none => match a.short with
     | some s => 45 :: s
     | none => []) ++ argSuffix a

/-- `display_width(&arg.to_string())`; names are ASCII in this model (one column per byte) -/
def dispW (a : HArg) : Nat := (display a).length

end Help
end Clap
