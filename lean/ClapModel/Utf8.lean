/-
L0: UTF-8 validation as `core::str::from_utf8` performs it (Unicode table 3-7:
well-formed byte sequences).  A one-byte-at-a-time state machine so that every
definition is structurally recursive.

`splitValid b = (chars, rest)`: `chars` are the complete well-formed scalar
sequences of the longest valid prefix (each as its own byte list), `rest` is
everything from the first ill-formed or truncated sequence on.  Rust's
`Utf8Error::valid_up_to()` is `(chars.flatten).length`.
-/
import ClapModel.Bytes
namespace Clap
namespace Utf8

/-- decoder state between bytes -/
structure St where
  need : Nat          -- continuation bytes still expected (0 = on a boundary)
  lo : UInt8          -- admissible range of the next continuation byte
  hi : UInt8
  cur : Bytes         -- bytes of the sequence in progress, in order
deriving Repr, DecidableEq

def St.init : St := ⟨0, 0x80, 0xBF, []⟩

/-- classification of a lead byte: `(continuation bytes, lo, hi)` of the *first*
continuation byte; `none` = not a lead byte. -/
def lead (b : UInt8) : Option (Nat × UInt8 × UInt8) :=
  if b ≤ 0x7F then some (0, 0x80, 0xBF)
  else if 0xC2 ≤ b ∧ b ≤ 0xDF then some (1, 0x80, 0xBF)
  else if b = 0xE0 then some (2, 0xA0, 0xBF)
  else if (0xE1 ≤ b ∧ b ≤ 0xEC) ∨ b = 0xEE ∨ b = 0xEF then some (2, 0x80, 0xBF)
  else if b = 0xED then some (2, 0x80, 0x9F)
  else if b = 0xF0 then some (3, 0x90, 0xBF)
  else if 0xF1 ≤ b ∧ b ≤ 0xF3 then some (3, 0x80, 0xBF)
  else if b = 0xF4 then some (3, 0x80, 0x8F)
  else none

def consFst (x : Bytes) (p : List Bytes × Bytes) : List Bytes × Bytes := (x :: p.1, p.2)

/-- the scan: returns the complete characters (in order) and the unparsed rest -/
def scan : St → Bytes → List Bytes × Bytes
  | st, [] => ([], st.cur)
  | st, b :: bs =>
    match st.need with
    | 0 =>
      match lead b with
      | none => ([], b :: bs)
      | some (0, _, _) =>
        consFst [b] (scan St.init bs)
      | some (n+1, lo, hi) => scan ⟨n+1, lo, hi, [b]⟩ bs
    | 1 =>
      if st.lo ≤ b ∧ b ≤ st.hi then
        consFst (st.cur ++ [b]) (scan St.init bs)
      else ([], st.cur ++ b :: bs)
    | n+2 =>
      if st.lo ≤ b ∧ b ≤ st.hi then scan ⟨n+1, 0x80, 0xBF, st.cur ++ [b]⟩ bs
      else ([], st.cur ++ b :: bs)

def splitValid (b : Bytes) : List Bytes × Bytes := scan St.init b

def chars (b : Bytes) : List Bytes := (splitValid b).1
def invalidRest (b : Bytes) : Bytes := (splitValid b).2
def validUpTo (b : Bytes) : Nat := (chars b).flatten.length
def valid (b : Bytes) : Bool := (invalidRest b).isEmpty

/-- code point of one well-formed sequence (used only to print `char`s) -/
def codePoint : Bytes → Nat
  | [a] => a.toNat
  | [a, b] => (a.toNat % 32) * 64 + (b.toNat % 64)
  | [a, b, c] => (a.toNat % 16) * 4096 + (b.toNat % 64) * 64 + (c.toNat % 64)
  | [a, b, c, d] => (a.toNat % 8) * 262144 + (b.toNat % 64) * 4096 + (c.toNat % 64) * 64 + (d.toNat % 64)
  | _ => 0

end Utf8
end Clap
