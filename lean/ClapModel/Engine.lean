/-
The dynamic completion engine (`clap_complete/src/engine/complete.rs`, feature
`unstable-dynamic`): the token loop of `complete` with its `ParseState`,
`parse_positional`, `parse_opt_value`, `parse_shortflags`, and the option /
subcommand / possible-value candidates of `complete_arg`. Custom completers and
path completion are not modelled (commands in the tie use neither).
-/
import ClapModel.Lex
namespace Clap
namespace Engine
open Bytes (startsWith dash)

structure EPV where
  name : Bytes
  hide : Bool := false
deriving Repr, DecidableEq

structure EArg where
  id : Bytes
  shorts : List Bytes := []        -- `get_short_and_visible_aliases` (empty = `None`)
  longs : List Bytes := []         -- `get_long_and_visible_aliases`
  hiddenLongs : List Bytes := []   -- `get_aliases`
  long : Option Bytes := none      -- `get_long`
  takesValues : Bool := false
  minVals : Nat := 0
  maxVals : Nat := 0               -- `usize::MAX` encoded as a large number by the driver
  allowHyphen : Bool := false
  index : Option Nat := none       -- positional index
  hide : Bool := false
  pvs : Option (List EPV) := none  -- `possible_values(arg)`
  delimiter : Option Bytes := none
deriving Repr, DecidableEq

inductive ECmd
  | mk (names : List Bytes) (hiddenAliases : List Bytes) (hide : Bool) (noBinaryName : Bool) (args : List EArg) (subs : List ECmd)
deriving Repr

namespace ECmd
/-- name and visible aliases -/
def names : ECmd → List Bytes | mk n .. => n
def hiddenAliases : ECmd → List Bytes | mk _ h .. => h
def hide : ECmd → Bool | mk _ _ h .. => h
def noBinaryName : ECmd → Bool | mk _ _ _ n .. => n
def args : ECmd → List EArg | mk _ _ _ _ a _ => a
def subs : ECmd → List ECmd | mk _ _ _ _ _ s => s
/-- `find_subcommand`: name or any alias -/
def findSubcommand (c : ECmd) (v : Bytes) : Option ECmd := c.subs.find? fun s => s.names.contains v || s.hiddenAliases.contains v
def positional (c : ECmd) (i : Nat) : Option EArg := c.args.find? fun a => a.index == some i
end ECmd

inductive PS
  | valueDone
  | pos (idx n : Nat)
  | opt (a : EArg) (count : Nat)
deriving Repr, DecidableEq

structure Cand where
  value : Bytes
  hidden : Bool
  id : Option Bytes      -- `arg::<id>` / `command::<name>`; `none` for values
deriving Repr, DecidableEq

/-- the outcome of `complete`: candidates, the plain "no completion generated" error, or a panic -/
inductive Out
  | cands (cs : List Cand)
  | noCompletion
  | panic (site : String)
deriving Repr, DecidableEq

/-- `parse_positional`; `none` = its `unreachable!` -/
def parsePositional (c : ECmd) (posIndex : Nat) (isEscaped : Bool) (st : PS) : Option (PS × Nat) :=
  let numArgs := ((c.positional posIndex).map (·.maxVals)).getD 1
  let fresh : PS × Nat :=
    if numArgs > 1 then (.pos posIndex 1, posIndex)
    else if isEscaped then (.pos posIndex 1, posIndex + 1) else (.valueDone, posIndex + 1)
  match st with
  | .valueDone => some fresh
  | .opt _ _ => some fresh
  | .pos prev n =>
    if prev == posIndex then
      if n + 1 < numArgs then some (.pos posIndex (n + 1), posIndex)
      else if isEscaped then some (.pos posIndex 1, posIndex + 1) else some (.valueDone, posIndex + 1)
    else some fresh

/-- `parse_opt_value` -/
def parseOptValue (a : EArg) (count : Nat) : PS := if count < a.maxVals then .opt a (count + 1) else .valueDone

def posAllowsHyphen (c : ECmd) (posIndex : Nat) : Bool := ((c.positional posIndex).map (·.allowHyphen)).getD false

def optAllowsHyphen (st : PS) (tok : Bytes) : Bool :=
  if startsWith tok [dash] then (match st with | .opt a _ => a.allowHyphen | _ => false) else false

def findShort (c : ECmd) (ch : Bytes) : Option EArg := c.args.find? fun a => a.shorts.contains ch
def findLongVis (c : ECmd) (l : Bytes) : Option EArg := c.args.find? fun a => a.longs.contains l

/-- `parse_shortflags`: the flags read (concatenated), the first value-taking option met, the rest of the cluster -/
def parseShortflags (c : ECmd) : Nat → ShortFlags → Bytes → Bytes × Option EArg × ShortFlags
  | 0, s, lead => (lead, none, s)
  | fuel+1, s, lead =>
    match s.nextFlag with
    | (s', .ch ch) =>
      let lead' := lead ++ ch
      match findShort c ch with
      | some a => if a.takesValues then (lead', some a, s') else parseShortflags c fuel s' lead'
      | none => parseShortflags c fuel s' lead'
    | (s', _) => (lead, none, s')

/-- `known_flags` in the short branch of the word loop: every character of the group is a short the
command knows (as the parser, a group of known flags is never a hyphen value of the positional) -/
def knownFlags (c : ECmd) (sf : ShortFlags) : Bool :=
  sf.invalid.isNone && sf.chars.all fun ch => (findShort c ch).isSome

/-- one step of the `while let Some(arg)` loop on a token that is not under the cursor:
new `(cmd, pos_index, is_escaped, state)`; `none` = panic -/
def stepTok (cur : ECmd) (posIndex : Nat) (isEscaped : Bool) (st : PS) (tok : Bytes) : Option (ECmd × Nat × Bool × PS) :=
  match (if Utf8.valid tok then cur.findSubcommand tok else none) with
  | some next => some (next, 1, isEscaped, .valueDone)
  | none =>
    if isEscaped then (parsePositional cur posIndex isEscaped st).map fun r => (cur, r.2, isEscaped, r.1)
    else if ParsedArg.isEscape tok then some (cur, posIndex, true, .valueDone)
    else if optAllowsHyphen st tok then
      match st with
      | .opt a n => some (cur, posIndex, isEscaped, parseOptValue a n)
      | _ => none
    else match ParsedArg.toLong tok with
      | some (flag, utf8, value) =>
        if !utf8 then some (cur, posIndex, isEscaped, .valueDone) else
        match findLongVis cur flag with
        | some a => some (cur, posIndex, isEscaped, if a.takesValues && value.isNone then .opt a 1 else .valueDone)
        | none =>
          if posAllowsHyphen cur posIndex then (parsePositional cur posIndex isEscaped st).map fun r => (cur, r.2, isEscaped, r.1)
          else some (cur, posIndex, isEscaped, .valueDone)
      | none =>
        match ParsedArg.toShort tok with
        | some sf =>
          match parseShortflags cur (sf.chars.length + 1) sf [] with
          | (_, some a, rest) => some (cur, posIndex, isEscaped, if (rest.nextValueOs).2.isNone then .opt a 1 else .valueDone)
          | (_, none, _) =>
            if !(knownFlags cur sf) && posAllowsHyphen cur posIndex then (parsePositional cur posIndex isEscaped st).map fun r => (cur, r.2, isEscaped, r.1)
            else some (cur, posIndex, isEscaped, .valueDone)
        | none =>
          match st with
          | .opt a n => some (cur, posIndex, isEscaped, parseOptValue a n)
          | _ => (parsePositional cur posIndex isEscaped st).map fun r => (cur, r.2, isEscaped, r.1)

/-! ### candidates -/

def b_dd : Bytes := [dash, dash]
/-- `arg::` -/
def idArg (i : Bytes) : Bytes := [97, 114, 103, 58, 58] ++ i
/-- `command::` -/
def idCmd (i : Bytes) : Bytes := [99, 111, 109, 109, 97, 110, 100, 58, 58] ++ i

def longCands (c : ECmd) : List Cand :=
  c.args.flatMap fun a => a.longs.map fun l => { value := b_dd ++ l, hidden := a.hide, id := some (idArg a.id) }

def hiddenLongCands (c : ECmd) : List Cand :=
  c.args.flatMap fun a => a.hiddenLongs.map fun l => { value := b_dd ++ l, hidden := true, id := some (idArg a.id) }

def shortCands (c : ECmd) (pfx : Bytes) : List Cand :=
  c.args.flatMap fun a => a.shorts.map fun s => { value := pfx ++ s, hidden := a.hide, id := some (idArg a.id) }

def subCands (c : ECmd) (v : Bytes) : List Cand :=
  (c.subs.flatMap fun sc =>
    (sc.names.map fun n => ({ value := n, hidden := sc.hide, id := some (idCmd (sc.names.headD [])) } : Cand)) ++
    (sc.hiddenAliases.map fun n => ({ value := n, hidden := true, id := some (idCmd (sc.names.headD [])) } : Cand))).filter
    fun cand => startsWith cand.value v

/-- `rsplit_delimiter` on a UTF-8 value -/
def rsplitDelim (v : Bytes) (d : Option Bytes) : Bytes × Bytes :=
  match d with
  | none => ([], v)
  | some d =>
    match (OsStrExt.split v d) with
    | some parts => if parts.length ≤ 1 then ([], v) else (v.take (v.length - (parts.getLastD []).length), parts.getLastD [])
    | none => ([], v)

/-- `complete_arg_value` for possible values (the only value source in the model) -/
def valueCands (a : EArg) (v : Bytes) (utf8 : Bool) : List Cand :=
  match a.pvs with
  | none => []
  | some pvs =>
    if !utf8 then [] else
    let (pfx, v') := rsplitDelim v a.delimiter
    (pvs.filter fun p => startsWith p.name v').map fun p => { value := pfx ++ p.name, hidden := p.hide, id := none }

/-- `complete_option` -/
def optionCands (c : ECmd) (tok : Bytes) : List Cand :=
  if ParsedArg.isEmpty tok then longCands c ++ hiddenLongCands c ++ shortCands c [dash]
  else if ParsedArg.isStdio tok then shortCands c [dash] ++ longCands c ++ hiddenLongCands c
  else if ParsedArg.isEscape tok then longCands c ++ hiddenLongCands c
  else match ParsedArg.toLong tok with
    | some (flag, utf8, value) =>
      if !utf8 then [] else
      match value with
      | some v =>
        match c.args.find? (fun a => a.long == some flag) with
        | some a => (valueCands a v (Utf8.valid v)).map fun cd => { cd with value := b_dd ++ flag ++ [Bytes.eq] ++ cd.value }
        | none => []
      | none =>
        (longCands c).filter (fun cd => startsWith cd.value (b_dd ++ flag)) ++
        (hiddenLongCands c).filter (fun cd => startsWith cd.value (b_dd ++ flag))
    | none =>
      match ParsedArg.toShort tok with
      | some sf =>
        if sf.isNegativeNumber then [] else
        match parseShortflags c (sf.chars.length + 1) sf [] with
        | (lead, some a, rest) =>
          let (rest1, hasEq) := match rest.nextFlag with
            | (r, .ch ch) => if ch == [Bytes.eq] then (r, true) else (rest, false)
            | _ => (rest, false)
          let v := (rest1.nextValueOs).2.getD []
          (valueCands a v (Utf8.valid v)).map fun cd =>
            { cd with value := [dash] ++ lead ++ (if hasEq then [Bytes.eq] else []) ++ cd.value }
        | (lead, none, _) => shortCands c ([dash] ++ lead)
      | none => []

/-- hidden filter and id de-duplication of `complete_arg` (sorting by tag/display order is not modelled: compared as sets) -/
def finish (cs : List Cand) : List Cand :=
  let cs1 := if cs.any (!·.hidden) then cs.filter (!·.hidden) else cs
  (cs1.foldl (fun (acc : List Cand × List Bytes) cd =>
    match cd.id with
    | some i => if acc.2.contains i then acc else (acc.1 ++ [cd], acc.2 ++ [i])
    | none => (acc.1 ++ [cd], acc.2)) ([], [])).1

/-- `complete_arg` before `finish` -/
def rawCands (c : ECmd) (posIndex : Nat) (tok : Bytes) : PS → List Cand
  | .valueDone =>
    (if Utf8.valid tok then dedupSubs (subCands c tok) else []) ++
    (match c.positional posIndex with | some p => valueCands p tok (Utf8.valid tok) | none => []) ++
    optionCands c tok
  | .pos _ n =>
    match c.positional posIndex with
    | some p => valueCands p tok (Utf8.valid tok) ++ (if n ≥ p.minVals then optionCands c tok else [])
    | none => []
  | .opt a count =>
    valueCands a tok (Utf8.valid tok) ++
    (if count > a.minVals then
      (if Utf8.valid tok then dedupSubs (subCands c tok) else []) ++
      (match c.positional posIndex with | some p => valueCands p tok (Utf8.valid tok) | none => []) ++
      optionCands c tok
     else [])
where
  /-- `scs.sort(); scs.dedup()`: ordered by value (byte-wise), equal neighbours merged; the order matters because
  the later id de-duplication keeps the FIRST candidate of each subcommand -/
  dedupSubs (l : List Cand) : List Cand :=
    (l.foldl (fun acc x => insertByValue x acc) []).foldl (fun acc x => if acc.contains x then acc else acc ++ [x]) []
  insertByValue (x : Cand) : List Cand → List Cand
    | [] => [x]
    | y :: ys => if bytesLe y.value x.value then y :: insertByValue x ys else x :: y :: ys
  bytesLe : Bytes → Bytes → Bool
    | [], _ => true
    | _ :: _, [] => false
    | a :: as, b :: bs => a < b || (a == b && bytesLe as bs)

/-- the token loop of `complete`: `idx` = index of the token under the cursor among `toks` (already
without the binary name), `fuel` = number of tokens -/
def loop : ECmd → Nat → Bool → PS → Nat → List Bytes → Out
  | _, _, _, _, _, [] => .noCompletion
  | cur, posIndex, isEscaped, st, idx, tok :: rest =>
    if idx == 0 then .cands (finish (rawCands cur posIndex tok st))
    else match stepTok cur posIndex isEscaped st tok with
      | none => .panic "unreachable"
      | some (cur', p', e', st') => loop cur' p' e' st' (idx - 1) rest

/-- `complete(cmd, args, arg_index)` -/
def complete (c : ECmd) (args : List Bytes) (argIndex : Nat) : Out :=
  if c.noBinaryName then loop c 1 false .valueDone argIndex args
  else if argIndex == 0 then
    -- the cursor is on the binary name, which the loop skips: every token is walked, none is completed
    loop c 1 false .valueDone (args.length + 1) (args.drop 1)
  else loop c 1 false .valueDone (argIndex - 1) (args.drop 1)

end Engine
end Clap
