/-
L3 build: `Command::_build_self` / `_build_subcommand` / `Arg::_build` /
`_check_help_and_version` / `_propagate_global_args`, applied eagerly to the
whole tree (what `Command::build()` does, minus the expanded help tree).
Action defaults come from `Gen/ActionTables` (re-extracted from action.rs).
-/
import ClapModel.Cmd
import ClapModel.Gen.ActionTables
namespace Clap
namespace Build

/-! byte literals (string literals do not reduce in the kernel) -/
def b_help : Bytes := [104, 101, 108, 112]
def b_h : Bytes := [104]
def b_version : Bytes := [118, 101, 114, 115, 105, 111, 110]
def b_V : Bytes := [86]
def b_subcommand : Bytes := [115, 117, 98, 99, 111, 109, 109, 97, 110, 100]

def Action.idx : Action → Nat
  | .set => 0 | .append => 1 | .setTrue => 2 | .setFalse => 3 | .count => 4
  | .help => 5 | .helpShort => 6 | .helpLong => 7 | .version => 8

def actionRow (a : Action) : Gen.ActionRow :=
  (Gen.actionTable[Action.idx a]?).getD ⟨"", false, false, none, none⟩

/-- `Arg::_build` -/
def buildArg (a : Arg) : Arg :=
  let action : Action :=
    match a.action with
    | some x => x
    | none =>
      if a.numVals == some Range.empty then .setTrue
      else if a.isPositional && (a.numVals.getD Range.single).isUnbounded then .append
      else .set
  let row := actionRow action
  let defaultVals := if a.defaultVals.isEmpty then row.defaultValue.toList else a.defaultVals
  let defaultMissing := if a.defaultMissing.isEmpty then row.defaultMissing.toList else a.defaultMissing
  let vp : VP :=
    match a.vp with
    | some v => v
    | none => match action with
      | .setTrue => .bool | .setFalse => .bool | .count => .count | _ => .string
  let numVals : Range :=
    match a.numVals with
    | some r => r
    | none => if row.defaultNumArgsSingle then Range.single else Range.empty
  { a with action := some action, defaultVals := defaultVals, defaultMissing := defaultMissing,
           vp := some vp, numVals := some numVals }

def helpArg : Arg :=
  { id := b_help, short := some b_h, long := some b_help, action := some .help }
def versionArg : Arg :=
  { id := b_version, short := some b_V, long := some b_version, action := some .version }

/-- the auto-generated `help` subcommand (`expand_help_tree = false`) -/
def helpSub : Cmd :=
  Cmd.mk b_help [] none none [] []
    { disableHelpFlag := true, disableVersionFlag := true }
    [{ id := b_subcommand, action := some .append, numVals := some ⟨0, none⟩ }] [] []

/-- fill in the groups named by `Arg::group` (existing group gets the member appended, else a new group) -/
def addToGroups (groups : List Group) (argId : Id) : List Id → List Group
  | [] => groups
  | g :: gs =>
    let groups' :=
      if groups.any (fun grp => grp.id == g) then
        groups.map fun grp => if grp.id == g then { grp with args := grp.args ++ [argId] } else grp
      else groups ++ [{ id := g, args := [argId] }]
    addToGroups groups' argId gs

/-- the per-arg loop of `_build_self`: groups, `Arg::_build`, implicit positional indices -/
def buildArgs : List Arg → Nat → List Group → List Arg × List Group
  | [], _, gs => ([], gs)
  | a :: as, posCounter, gs =>
    let gs1 := addToGroups gs a.id a.groups
    let a1 := buildArg a
    let (a2, pc) := if a1.isPositional && a1.index.isNone then ({ a1 with index := some posCounter }, posCounter + 1) else (a1, posCounter)
    let (rest, gs2) := buildArgs as pc gs1
    (a2 :: rest, gs2)

/-- `_propagate_global_args`: copy the (unbuilt) global args into each subcommand that lacks the id -/
def propagateGlobals (globals : List Arg) (autoHelpSub : Bool) (sc : Cmd) : Cmd :=
  if sc.name == b_help && autoHelpSub then sc else
  sc.withArgs (globals.foldl (fun acc a => if acc.any (fun x => x.id == a.id) then acc else acc ++ [a]) sc.args)

/-- the command-level switches `_build_self` applies to the built args of the level at its very end, with the highest
positional index of the level (`0` when there is none) -/
structure LevelSwitches where
  hyphen : Bool
  negative : Bool
  trailing : Bool
  highestIdx : Nat

/-- `allow_hyphen_values` / `allow_negative_numbers` for every value-taking arg, `trailing_var_arg` for the positional
with the highest index -/
def cmdLevelArg (sw : LevelSwitches) (a : Arg) : Arg :=
  let a1 : Arg :=
    if a.takesValue then { a with allowHyphen := a.allowHyphen || sw.hyphen, allowNegative := a.allowNegative || sw.negative }
    else a
  { a1 with trailingVarArg := a1.trailingVarArg || (sw.trailing && a.index == some sw.highestIdx) }

/-- the body of `_build_self` for one level (subcommands receive globals but are not built yet);
NOT idempotent on its own: a second run would add the help/version args again and re-run the arg build -/
def buildSelfCore (c : Cmd) : Cmd :=
  let st0 := c.settings
  let st := { st0 with built := true,
                       disableHelpSubcommand := st0.disableHelpSubcommand || !c.hasSubcommands,
                       -- `if ArgsNegateSubcommands { set(SubcommandsNegateReqs) }`
                       subcommandNegatesReqs := st0.subcommandNegatesReqs || st0.argsConflictsWithSubcommands }
  -- `_check_help_and_version`
  let args0 := c.args
  let args1 := if !st.disableHelpFlag then args0 ++ [helpArg] else args0
  let args2 := if !(st.disableVersionFlag || !st.hasVersion) then args1 ++ [versionArg] else args1
  let subs1 := if !st.disableHelpSubcommand then c.subs ++ [helpSub] else c.subs
  -- `_propagate_global_args`
  let globals := args2.filter (·.global)
  -- `_propagate`: settings installed with `global_setting` reach every subcommand
  let inherit := fun (sc : Cmd) =>
    let s := sc.settings
    sc.withSettings { s with
      noBinaryName := s.noBinaryName || st.noBinaryName, inferSubcommands := s.inferSubcommands || st.inferSubcommands,
      inferLongArgs := s.inferLongArgs || st.inferLongArgs, ignoreErrors := s.ignoreErrors || st.ignoreErrors,
      dontDelimitTrailingValues := s.dontDelimitTrailingValues || st.dontDelimitTrailingValues,
      disableVersionFlag := s.disableVersionFlag || st.disableVersionFlag,
      disableHelpSubcommand := s.disableHelpSubcommand || st.disableHelpSubcommand,
      disableHelpFlag := s.disableHelpFlag || st.disableHelpFlag,
      argsOverrideSelf := s.argsOverrideSelf || st.argsOverrideSelf }
  let subs2 := (subs1.map inherit).map (propagateGlobals globals (!st.disableHelpSubcommand))
  let (args3, groups) := buildArgs args2 1 c.groups
  let sw : LevelSwitches := ⟨st.allowHyphenValues, st.allowNegativeNumbers, st.trailingVarArg,
    (args3.filterMap (·.index)).foldl max 0⟩
  (((c.withSettings st).withArgs (args3.map (cmdLevelArg sw))).withGroups groups).withSubs subs2

/-- `_build_self`: `if !self.is_set(AppSettings::Built) { … self.settings.set(Built) }` -/
def buildSelf (c : Cmd) : Cmd := if c.settings.built then c else buildSelfCore c

/-- eager build of the whole tree; `fuel` bounds the depth (`Cmd` is a nested inductive) -/
def buildAll : Nat → Cmd → Cmd
  | 0, c => c
  | n+1, c =>
    let c1 := buildSelf c
    c1.withSubs (c1.subs.map (buildAll n))

end Build
end Clap
