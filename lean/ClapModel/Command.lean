/-
L3 top level: `Parser::get_matches_with`, `Parser::parse` (subcommand descent),
`Command::_do_parse`, `ArgMatcher::propagate_globals`,
`Command::try_get_matches_from_mut`.
-/
import ClapModel.Validator
namespace Clap

/-- `ArgMatches`: the args of the top level and the chain of subcommand levels below it -/
structure Matches where
  args : ArgMap
  subs : List (Bytes × ArgMap)
deriving Repr

namespace Parser

/-- external subcommand: one value group holding the remaining argv, no indices -/
def externalMatches (rest : List Bytes) : ArgMap :=
  [([], { source := some .cmdline, rawVals := [rest] })]

/-- the descent into a subcommand: `Parser::get_matches_with` of the child -/
abbrev Descend := Cmd → List Bytes → P → Option (R Unit)

/-- the tail of `Parser::parse` after the loop: `find_subcommand`, `parse_subcommand` -/
def parseSub (descend : Descend) (c : Cmd) (name : Bytes) (rest : List Bytes) (keep : Bool) (p : P) : Option (R Unit) :=
  match c.findSubcommand name with
  | none => some (p, .error (.panic "find_subcommand: expect"))
  | some sc =>
    let p0 : P := if keep then { curIdx := p.curIdx, flagSubAt := p.flagSubAt, flagSubSkip := p.flagSubSkip,
                                  flagSubConsumed := p.flagSubConsumed } else {}
    match descend sc rest p0 with
    | none => none
    | some (ps, .error e) =>
      match e with
      | .panic _ => some (p, .error e)
      | _ =>
        if c.settings.ignoreErrors then some ({ p with sub := (sc.name, ps.args) :: ps.sub }, .ok ())
        else some (p, .error e)
    | some (ps, .ok ()) => some ({ p with sub := (sc.name, ps.args) :: ps.sub }, .ok ())

/-- `Parser::parse`: the token loop, then the descent into the subcommand -/
def parse (similar : Bytes → Bytes → Bool) (descend : Descend) (c : Cmd) (toks : List Bytes) (p : P) : Option (R Unit) :=
  match loop c similar {} toks p with
  | (p1, .error e) => some (p1, .error e)
  | (p1, .ok .done) => some (p1, .ok ())
  | (p1, .ok (.external name rest)) => some ({ p1 with sub := [(name, externalMatches rest)] }, .ok ())
  | (p1, .ok (.sub name rest keep vaf)) =>
    if c.settings.argsConflictsWithSubcommands && vaf then
      -- `subcommand_conflict`; ids that are not args (groups) are skipped (after the `fix:` for finding F1;
      -- it used to `unwrap()` `cmd.find(id)` for every id in the matcher)
      some (p1, .error .argumentConflict)
    else parseSub descend c name rest keep p1

/-- `Parser::get_matches_with` with the recursive call abstracted -/
def getMatchesWithCore (similar : Bytes → Bytes → Bool) (descend : Descend) (c : Cmd) (toks : List Bytes) (p : P) : Option (R Unit) :=
  match parse similar descend c toks p with
  | none => none
  | some (p1, .error e) =>
    if c.settings.ignoreErrors then
      let p2 := (addEnv c c.args p1).1
      let p3 := (addDefaults c c.args p2).1
      some (p3, .error e)
    else some (p1, .error e)
  | some (p1, .ok ()) =>
    match resolvePending c p1 with
    | (p2, .error e) => some (p2, .error e)
    | (p2, .ok ()) =>
      match addEnv c c.args p2 with
      | (p3, .error e) => some (p3, .error e)
      | (p3, .ok ()) =>
        match addDefaults c c.args p3 with
        | (p4, .error e) => some (p4, .error e)
        | (p4, .ok ()) =>
          match Validator.validate c p4 with
          | .error e => some (p4, .error e)
          | .ok () => some (p4, .ok ())

/-- `Parser::get_matches_with`; `fuel` bounds the number of descents, `none` = fuel
exhausted (never when `c.height ≤ fuel + 1`, see `ClapProofs/C01`) -/
def getMatchesWith (similar : Bytes → Bytes → Bool) : Nat → Descend
  | 0 => getMatchesWithCore similar (fun _ _ _ => none)
  | fuel+1 => getMatchesWithCore similar (getMatchesWith similar fuel)

end Parser

/-! ### global propagation -/
namespace Globals

/-- `get_used_global_args`: ids of the global args of every command on the chain -/
def usedGlobalArgs : Nat → Cmd → List Bytes → List Id
  | 0, _, _ => []
  | n+1, c, names =>
    let own := (c.args.filter (·.global)).map (·.id)
    match names with
    | [] => own
    | s :: rest =>
      match c.findSubcommand s with
      | some sc => own ++ usedGlobalArgs n sc rest
      | none => own

/-- `fill_in_global_values` over the chain of levels (top first).  `vals` is the
`vals_map` accumulated on the way down; returns the rewritten levels. -/
def fillIn (globals : List Id) : List ArgMap → ArgMap → List ArgMap × ArgMap
  | [], vals => ([], vals)
  | level :: below, vals =>
    -- record this level's globals (parent wins only with a strictly greater source)
    let vals1 := globals.foldl (fun (acc : ArgMap) g =>
      match level.get g with
      | some ma =>
        let rankOpt : Option Source → Nat := fun o => match o with | none => 0 | some s => s.rank + 1
        let toUpdate := match acc.get g with
          | some parent => if rankOpt parent.source > rankOpt ma.source then parent else ma
          | none => ma
        acc.insert g toUpdate
      | none => acc) vals
    -- recurse first: deeper levels may replace entries of `vals_map`
    let (below', vals2) := fillIn globals below vals1
    -- then write the final map into this level
    let level' := vals2.foldl (fun (acc : ArgMap) p => acc.insert p.1 p.2) level
    (level' :: below', vals2)

def propagate (globals : List Id) (m : Matches) : Matches :=
  let levels := m.args :: m.subs.map (·.2)
  match (fillIn globals levels []).1 with
  | top :: rest => { args := top, subs := (m.subs.map (·.1)).zip rest }
  | [] => m

end Globals

namespace Command

/-- `_do_parse` on an already-built command; `none` = out of fuel -/
def doParse (similar : Bytes → Bytes → Bool) (fuel : Nat) (c : Cmd) (toks : List Bytes) : Option (Except EK Matches) :=
  match Parser.getMatchesWith similar fuel c toks {} with
  | none => none
  | some (p, r) =>
    let finish : Unit → Except EK Matches := fun _ =>
      let m : Matches := { args := p.args, subs := p.sub }
      let globals := Globals.usedGlobalArgs (fuel + 1) c (m.subs.map (·.1))
      .ok (Globals.propagate globals m)
    match r with
    | .ok () => some (finish ())
    | .error e =>
      match e with
      | .panic _ => some (.error e)
      | _ => if c.settings.ignoreErrors && e.useStderr then some (finish ()) else some (.error e)

/-- `try_get_matches_from_mut` (no multicall): drop argv[0] unless `no_binary_name`, build, parse -/
def tryGetMatchesFrom (similar : Bytes → Bytes → Bool) (depth : Nat) (c : Cmd) (argv : List Bytes) : Option (Except EK Matches) :=
  let toks := if c.settings.noBinaryName then argv else argv.drop 1
  doParse similar (depth + 2) (Build.buildAll (depth + 2) c) toks

end Command

/-! ### clap's build assertions, as far as the parser's totality depends on them (decidable form) -/

/-- one level: unique arg ids, positionals without long name or alias, group members that exist -/
def Cmd.wfLevelB (c : Cmd) : Bool :=
  decide ((c.args.map (·.id)).Nodup) &&
  (c.args.all fun a => !a.index.isSome || (a.long.isNone && a.aliases.isEmpty)) &&
  (c.groups.all fun g => g.args.all fun n => (c.find n).isSome || (c.findGroup n).isSome)

/-- every level of the tree, down to `fuel` levels below the root -/
def Cmd.wfTreeB : Nat → Cmd → Bool
  | 0, c => c.wfLevelB && c.subs.isEmpty
  | n+1, c => c.wfLevelB && c.subs.all (Cmd.wfTreeB n)

/-- clap's checks on one level as the user wrote it (decidable form of `UserLevelOk`) -/
def Cmd.userLevelB (c : Cmd) : Bool :=
  decide ((c.args.map (·.id)).Nodup) &&
  (c.args.all fun a => a.id != Build.b_help && a.id != Build.b_version) &&
  (c.args.all fun a => !a.index.isSome || a.isPositional) &&
  (c.args.all fun a => !a.isPositional || a.aliases.isEmpty) &&
  (c.groups.all fun g => g.args.all fun n => (c.args.any fun a => a.id == n) || (c.groups.any fun g' => g'.id == n))

def Cmd.userTreeB : Nat → Cmd → Bool
  | 0, c => c.userLevelB && c.subs.isEmpty
  | n+1, c => c.userLevelB && c.subs.all (Cmd.userTreeB n)

end Clap
