/-
L3 top level: `Parser::get_matches_with`, `Parser::parse` (subcommand descent),
`Command::_do_parse`, `ArgMatcher::propagate_globals`,
`Command::try_get_matches_from_mut`.
-/
import ClapModel.Validator
namespace Clap

/-- `ArgMatches`: the args of the top level and the chain of subcommand levels below it -/
structure Matches where
  args : ArgMap
  subs : List (Bytes × ArgMap)
deriving Repr

namespace Parser

/-- external subcommand: one value group holding the remaining argv, no indices -/
def externalMatches (rest : List Bytes) : ArgMap :=
  [([], { source := some .cmdline, rawVals := [rest] })]

mutual
/-- `Parser::parse`: the token loop, then the descent into the subcommand.
`fuel` bounds the number of descents (never exhausted when `fuel > height`). -/
def parse (similar : Bytes → Bytes → Bool) : Nat → Cmd → List Bytes → P → R Unit
  | fuel, c, toks, p =>
    match loop c similar {} toks p with
    | (p1, .error e) => (p1, .error e)
    | (p1, .ok .done) => (p1, .ok ())
    | (p1, .ok (.external name rest)) => ({ p1 with sub := [(name, externalMatches rest)] }, .ok ())
    | (p1, .ok (.sub name rest keep vaf)) =>
      if c.settings.argsConflictsWithSubcommands && vaf then
        -- `matcher.arg_ids().map(|id| self.cmd.find(id).unwrap())`
        if p1.args.ids.any fun id => (c.find id).isNone then (p1, .error (.panic "subcommand_conflict: find(id).unwrap()"))
        else (p1, .error .argumentConflict)
      else parseSub similar fuel c name rest keep p1

/-- the tail of `Parser::parse` after the loop: conflict check, `parse_subcommand` -/
def parseSub (similar : Bytes → Bytes → Bool) : Nat → Cmd → Bytes → List Bytes → Bool → P → R Unit
  | 0, _, _, _, _, p => (p, .error .outOfFuel)
  | fuel+1, c, name, rest, keep, p =>
    match c.findSubcommand name with
    | none => (p, .error (.panic "find_subcommand: expect"))
    | some sc =>
      let p0 : P := if keep then { curIdx := p.curIdx, flagSubAt := p.flagSubAt, flagSubSkip := p.flagSubSkip } else {}
      match getMatchesWith similar fuel sc rest p0 with
      | (ps, .error e) =>
        match e with
        | .panic _ => (p, .error e)
        | .outOfFuel => (p, .error e)
        | _ =>
          if c.settings.ignoreErrors then ({ p with sub := (sc.name, ps.args) :: ps.sub }, .ok ())
          else (p, .error e)
      | (ps, .ok ()) => ({ p with sub := (sc.name, ps.args) :: ps.sub }, .ok ())

/-- `Parser::get_matches_with` -/
def getMatchesWith (similar : Bytes → Bytes → Bool) : Nat → Cmd → List Bytes → P → R Unit
  | fuel, c, toks, p =>
    match parse similar fuel c toks p with
    | (p1, .error e) =>
      if c.settings.ignoreErrors then
        let p2 := (addEnv c c.args p1).1
        let p3 := (addDefaults c c.args p2).1
        (p3, .error e)
      else (p1, .error e)
    | (p1, .ok ()) =>
      match resolvePending c p1 with
      | (p2, .error e) => (p2, .error e)
      | (p2, .ok ()) =>
        match addEnv c c.args p2 with
        | (p3, .error e) => (p3, .error e)
        | (p3, .ok ()) =>
          match addDefaults c c.args p3 with
          | (p4, .error e) => (p4, .error e)
          | (p4, .ok ()) =>
            match Validator.validate c p4 with
            | .error e => (p4, .error e)
            | .ok () => (p4, .ok ())
end

end Parser

/-! ### global propagation -/
namespace Globals

/-- `get_used_global_args`: ids of the global args of every command on the chain -/
def usedGlobalArgs : Nat → Cmd → List Bytes → List Id
  | 0, _, _ => []
  | n+1, c, names =>
    let own := (c.args.filter (·.global)).map (·.id)
    match names with
    | [] => own
    | s :: rest =>
      match c.findSubcommand s with
      | some sc => own ++ usedGlobalArgs n sc rest
      | none => own

/-- `fill_in_global_values` over the chain of levels (top first).  `vals` is the
`vals_map` accumulated on the way down; returns the rewritten levels. -/
def fillIn (globals : List Id) : List ArgMap → ArgMap → List ArgMap × ArgMap
  | [], vals => ([], vals)
  | level :: below, vals =>
    -- record this level's globals (parent wins only with a strictly greater source)
    let vals1 := globals.foldl (fun (acc : ArgMap) g =>
      match level.get g with
      | some ma =>
        let rankOpt : Option Source → Nat := fun o => match o with | none => 0 | some s => s.rank + 1
        let toUpdate := match acc.get g with
          | some parent => if rankOpt parent.source > rankOpt ma.source then parent else ma
          | none => ma
        acc.insert g toUpdate
      | none => acc) vals
    -- recurse first: deeper levels may replace entries of `vals_map`
    let (below', vals2) := fillIn globals below vals1
    -- then write the final map into this level
    let level' := vals2.foldl (fun (acc : ArgMap) p => acc.insert p.1 p.2) level
    (level' :: below', vals2)

def propagate (globals : List Id) (m : Matches) : Matches :=
  let levels := m.args :: m.subs.map (·.2)
  match (fillIn globals levels []).1 with
  | top :: rest => { args := top, subs := (m.subs.map (·.1)).zip rest }
  | [] => m

end Globals

namespace Command

/-- height of the subcommand tree (fuel for descents) -/
def height : Nat → Cmd → Nat
  | 0, _ => 0
  | n+1, c => 1 + (c.subs.map (height n)).foldl Nat.max 0

/-- `_do_parse` on an already-built command -/
def doParse (similar : Bytes → Bytes → Bool) (fuel : Nat) (c : Cmd) (toks : List Bytes) : Except EK Matches :=
  let (p, r) := Parser.getMatchesWith similar fuel c toks {}
  let finish : Unit → Except EK Matches := fun _ =>
    let m : Matches := { args := p.args, subs := p.sub }
    let globals := Globals.usedGlobalArgs (fuel + 1) c (m.subs.map (·.1))
    .ok (Globals.propagate globals m)
  match r with
  | .ok () => finish ()
  | .error e =>
    match e with
    | .panic _ => .error e
    | .outOfFuel => .error e
    | _ => if c.settings.ignoreErrors && e.useStderr then finish () else .error e

/-- `try_get_matches_from_mut` (no multicall): drop argv[0] unless `no_binary_name`, build, parse -/
def tryGetMatchesFrom (similar : Bytes → Bytes → Bool) (depth : Nat) (c : Cmd) (argv : List Bytes) : Except EK Matches :=
  let toks := if c.settings.noBinaryName then argv else argv.drop 1
  doParse similar (depth + 2) (Build.buildAll (depth + 2) c) toks

end Command
end Clap
