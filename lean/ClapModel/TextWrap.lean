/-
L1 text: transliteration of `clap_builder/src/output/textwrap/{mod,core,
word_separators,wrap_algorithms}.rs` and `StyledStr::wrap` over `List Char`.
`cw : Char → Nat` is the character width (`unicode_width`, a parameter).
-/
namespace Clap
namespace TextWrap

abbrev Str := List Char

/-- Rust `char::is_whitespace` (Unicode `White_Space`) -/
def isWs (c : Char) : Bool :=
  let n := c.toNat
  (0x09 ≤ n && n ≤ 0x0D) || n == 0x20 || n == 0x85 || n == 0xA0 || n == 0x1680 ||
  (0x2000 ≤ n && n ≤ 0x200A) || n == 0x2028 || n == 0x2029 || n == 0x202F || n == 0x205F || n == 0x3000

/-- `char::is_ascii_control` -/
def isAsciiControl (c : Char) : Bool := c.toNat < 0x20 || c.toNat == 0x7F

/-- `char::len_utf8` -/
def utf8Len (c : Char) : Nat :=
  let n := c.toNat
  if n < 0x80 then 1 else if n < 0x800 then 2 else if n < 0x10000 then 3 else 4

def byteLen (s : Str) : Nat := (s.map utf8Len).sum

/-- drop trailing characters satisfying `p` -/
def dropWhileEnd (p : Char → Bool) : Str → Str
  | [] => []
  | c :: cs =>
    match dropWhileEnd p cs with
    | [] => if p c then [] else [c]
    | r => c :: r

/-- `str::trim_end` -/
def trimEnd (s : Str) : Str := dropWhileEnd isWs s

/-- `display_width` (core.rs): the loop with its `control_sequence` flag -/
def displayWidthAux (cw : Char → Nat) : Bool → Str → Nat
  | _, [] => 0
  | ctl, c :: cs =>
    if isAsciiControl c then displayWidthAux cw true cs
    else if ctl && c == 'm' then displayWidthAux cw false cs
    else if ctl then displayWidthAux cw true cs
    else cw c + displayWidthAux cw false cs

def displayWidth (cw : Char → Nat) (s : Str) : Nat := displayWidthAux cw false s

/-- `find_words_ascii_space`: `cur` is the word being accumulated (reversed),
`inWs` the `in_whitespace` flag. A word ends where a space is followed by a non-space. -/
def findWordsAux : Str → Bool → Str → List Str
  | cur, _, [] => if cur.isEmpty then [] else [cur.reverse]
  | cur, inWs, c :: cs =>
    let nextWs := c == ' '
    if inWs && !nextWs then cur.reverse :: findWordsAux [c] nextWs cs
    else findWordsAux (c :: cur) nextWs cs

def findWords (line : Str) : List Str := findWordsAux [] false line

/-- `str::split_inclusive('\n')` -/
def splitInclusiveAux : Str → Str → List Str
  | cur, [] => if cur.isEmpty then [] else [cur.reverse]
  | cur, c :: cs =>
    if c == '\n' then (c :: cur).reverse :: splitInclusiveAux [] cs
    else splitInclusiveAux (c :: cur) cs

def splitInclusive (s : Str) : List Str := splitInclusiveAux [] s

/-- `LineWrapper` -/
structure LW where
  hard : Nat
  lineWidth : Nat
  carry : Option Str
deriving Repr, DecidableEq

def LW.new (hard : Nat) : LW := ⟨hard, 0, none⟩
def LW.reset (w : LW) : LW := { w with lineWidth := 0, carry := none }

/-- trim the most recently pushed element (`words[i-1] = words[i-1].trim_end_matches(' ')`);
`acc` is the output so far, newest first -/
def trimLast : List Str → List Str
  | [] => []
  | l :: rest => dropWhileEnd (· == ' ') l :: rest   -- `trim_end_matches(' ')` (after the `fix:` for finding F12; was `trim_end()`)

/-- the `while` loop of `LineWrapper::wrap`; `first` ⇔ `i == 0`;
`acc` is the vector built so far, newest first -/
def wrapLoop (cw : Char → Nat) : LW → Bool → List Str → List Str → LW × List Str
  | st, _, acc, [] => (st, acc)
  | st, first, acc, word :: ws =>
    let trimmed := trimEnd word
    let wordWidth := displayWidth cw trimmed
    let delta := byteLen word - byteLen trimmed
    if !first && st.hard < st.lineWidth + wordWidth then
      let acc1 := trimLast acc
      let acc2 := ['\n'] :: acc1
      match st.carry with
      | some c =>
        wrapLoop cw { st with lineWidth := byteLen c + wordWidth + delta } false (word :: c :: acc2) ws
      | none =>
        wrapLoop cw { st with lineWidth := wordWidth + delta } false (word :: acc2) ws
    else
      wrapLoop cw { st with lineWidth := st.lineWidth + wordWidth + delta } false (word :: acc) ws

/-- `LineWrapper::wrap` -/
def LW.wrap (cw : Char → Nat) (st : LW) (words : List Str) : LW × List Str :=
  let st1 :=
    match st.carry, words with
    | none, w :: _ => { st with carry := some (if (w.all isWs) then w else []) }
    | _, _ => st
  let (st2, acc) := wrapLoop cw st1 true [] words
  (st2, acc.reverse)

/-- `textwrap::wrap` -/
def wrapLines (cw : Char → Nat) (hard : Nat) : List Str → List Str
  | [] => []
  | line :: ls => ((LW.new hard).wrap cw (findWords line)).2 ++ wrapLines cw hard ls

def wrap (cw : Char → Nat) (content : Str) (hard : Nat) : Str :=
  (wrapLines cw hard (splitInclusive content)).flatten

/-! ### `StyledStr::wrap` — text as segments (what `anstream::adapter::strip_str`
yields as text vs. the escape sequences between them) -/

inductive Seg
  | text (s : Str)
  | esc (s : Str)
deriving Repr, DecidableEq

def endsNl (l : Str) : Bool := l.getLast? == some '\n'

/-- the inner `for line in content.split_inclusive('\n')`: the wrapper is reset at the start of a line - also when
the line starts a new block of styled text (after the `fix:` for finding F25; it used to be reset only between the
lines of one block, so a block that began right after a line break went on with the previous line's width and indent) -/
def styledLines (cw : Char → Nat) : LW → Bool → List Str → (LW × Bool) × List Str
  | st, atStart, [] => ((st, atStart), [])
  | st, atStart, line :: ls =>
    let st0 := if atStart then st.reset else st
    let (st1, out) := st0.wrap cw (findWords line)
    let (r, rest) := styledLines cw st1 (endsNl line) ls
    (r, out ++ rest)

def styledSegs (cw : Char → Nat) : LW → Bool → List Seg → List Seg
  | _, _, [] => []
  | st, b, .esc e :: segs => .esc e :: styledSegs cw st b segs
  | st, b, .text t :: segs =>
    let (r, out) := styledLines cw st b (splitInclusive t)
    .text out.flatten :: styledSegs cw r.1 r.2 segs

def Seg.chars : Seg → Str
  | .text s => s
  | .esc s => s

def flattenSegs (segs : List Seg) : Str := (segs.map Seg.chars).flatten

/-- `StyledStr::wrap`: wrap the text chunks, copy the styling, final `trim_end` -/
def styledWrap (cw : Char → Nat) (segs : List Seg) (hard : Nat) : Str :=
  trimEnd (flattenSegs (styledSegs cw (LW.new hard) false segs))

end TextWrap
end Clap
