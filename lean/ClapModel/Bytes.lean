/-
L0: byte strings.  `Bytes = List UInt8` is the model of an `OsStr` on Unix
(arbitrary bytes).  Only core Lean is used.
-/
namespace Clap

abbrev Bytes := List UInt8

namespace Bytes

/-- `slice::starts_with` -/
def startsWith : Bytes → Bytes → Bool
  | _, [] => true
  | [], _ :: _ => false
  | h :: hs, p :: ps => h == p && startsWith hs ps

/-- `slice::strip_prefix` -/
def stripPrefix : Bytes → Bytes → Option Bytes
  | b, [] => some b
  | [], _ :: _ => none
  | h :: hs, p :: ps => if h == p then stripPrefix hs ps else none

def ofAscii (s : String) : Bytes := s.toUTF8.toList

def dash : UInt8 := 0x2D
def eq : UInt8 := 0x3D

end Bytes

/-! hex codec for the line protocol (`-` is the empty string) -/

def hexDigit (n : Nat) : Char :=
  if n < 10 then Char.ofNat (48 + n) else Char.ofNat (87 + n)

def hexOfBytes (b : Bytes) : String :=
  if b.isEmpty then "-" else
  String.ofList (b.flatMap fun x => [hexDigit (x.toNat / 16), hexDigit (x.toNat % 16)])

def hexVal (c : Char) : Option Nat :=
  if '0' ≤ c ∧ c ≤ '9' then some (c.toNat - 48)
  else if 'a' ≤ c ∧ c ≤ 'f' then some (c.toNat - 87)
  else none

def bytesOfHexAux : List Char → Option Bytes
  | [] => some []
  | [_] => none
  | a :: b :: rest =>
    match hexVal a, hexVal b, bytesOfHexAux rest with
    | some x, some y, some r => some (UInt8.ofNat (x * 16 + y) :: r)
    | _, _, _ => none

def bytesOfHex (s : String) : Option Bytes :=
  if s == "-" then some [] else bytesOfHexAux s.toList

end Clap
