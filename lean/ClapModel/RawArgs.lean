/-
L0: `RawArgs` / `ArgCursor` of `clap_lex/src/lib.rs`.
`usize`/`u64` are 64-bit, `i64` is two's complement; every `as` cast and
saturating operation is written out on `Nat`/`Int`.  Slice indexing that can
fail (`items[cursor..]`, `splice(cursor..cursor)`) is an explicit `panic`.
-/
import ClapModel.Bytes
namespace Clap
namespace RawArgs

def usizeMax : Nat := 2^64 - 1
def i64Max : Int := 2^63 - 1
def i64Min : Int := -(2^63)

/-- `x as i64` for a `usize` -/
def asI64 (n : Nat) : Int := if n < 2^63 then n else (n : Int) - 2^64
/-- i64 `saturating_add` -/
def satAddI64 (a b : Int) : Int :=
  let s := a + b
  if s > i64Max then i64Max else if s < i64Min then i64Min else s

structure State where
  items : List Bytes
  cursor : Nat
deriving Repr, DecidableEq

inductive Seek
  | start (p : Nat)      -- u64
  | fromEnd (p : Int)    -- i64
  | current (p : Int)    -- i64
deriving Repr, DecidableEq

inductive Op
  | next | peek | remaining | isEnd
  | seek (s : Seek)
  | insert (xs : List Bytes)
deriving Repr, DecidableEq

inductive Res
  | item (o : Option Bytes)
  | items (l : List Bytes)
  | bool (b : Bool)
  | unit
  | panic
deriving Repr, DecidableEq

/-- `seek`: the `match` computing a `u64`, then `(pos as usize).min(len)` -/
def seekPos (s : State) : Seek → Nat
  | .start p => min p s.items.length
  | .fromEnd p => min (max (satAddI64 (asI64 s.items.length) p) 0).toNat s.items.length
  | .current p => min (max (satAddI64 (asI64 s.cursor) p) 0).toNat s.items.length

def step (s : State) : Op → State × Res
  | .next => ({ s with cursor := min (s.cursor + 1) usizeMax }, .item s.items[s.cursor]?)
  | .peek => (s, .item s.items[s.cursor]?)
  | .isEnd => (s, .bool s.items[s.cursor]?.isNone)
  | .remaining =>
    -- `items[cursor.min(len)..]` (after the `fix:` commit for finding F5; before it
    -- this was `items[cursor..]`, which panicked when `next` had run past the end)
    ({ s with cursor := s.items.length }, .items (s.items.drop (min s.cursor s.items.length)))
  | .seek k => ({ s with cursor := seekPos s k }, .unit)
  | .insert xs =>
    let pos := min s.cursor s.items.length
    ({ s with items := s.items.take pos ++ xs ++ s.items.drop pos }, .unit)

/-- run a history; after a panic nothing more is executed -/
def run : State → List Op → List Res
  | _, [] => []
  | s, op :: ops =>
    match step s op with
    | (_, .panic) => [.panic]
    | (s', r) => r :: run s' ops

end RawArgs
end Clap
