/-
`clap_mangen` (`src/lib.rs`: `Man::new`, `Man::render`, section guards;
`src/render.rs`) as a producer of roff lines from what it reads off a built
`clap::Command`.
-/
import ClapModel.Roff
namespace Clap
namespace Man
open Roff

structure MPV where
  name : Bytes
  help : Option Bytes := none
  hide : Bool := false
deriving Repr, DecidableEq

structure MArg where
  id : Bytes
  short : Option Bytes := none
  long : Option Bytes := none
  valNames : Option (List Bytes) := none
  takesValues : Bool := false
  required : Bool := false
  hide : Bool := false
  isCount : Bool := false
  heading : Option Bytes := none
  help : Option Bytes := none
  longHelp : Option Bytes := none
  hideShortHelp : Bool := false
  hideLongHelp : Bool := false
  defaults : List Bytes := []
  hideDefault : Bool := false
  env : Option Bytes := none
  hideEnv : Bool := false
  pvs : List MPV := []
  hidePV : Bool := false
deriving Repr, DecidableEq

def MArg.isPositional (a : MArg) : Bool := a.long.isNone && a.short.isNone

structure MSub where
  name : Bytes
  about : Option Bytes := none      -- `get_about().or_else(get_long_about)`
  hide : Bool := false
deriving Repr, DecidableEq

structure MCmd where
  name : Bytes
  displayName : Option Bytes := none
  binName : Option Bytes := none
  about : Option Bytes := none
  longAbout : Option Bytes := none
  version : Option Bytes := none
  longVersion : Option Bytes := none
  author : Option Bytes := none
  afterHelp : Option Bytes := none
  afterLongHelp : Option Bytes := none
  subHeading : Option Bytes := none
  subValueName : Option Bytes := none
  subRequired : Bool := false
  args : List MArg := []
  subs : List MSub := []
  /-- `Man::title` / `section` / `date` / `source` / `manual` builder overrides -/
  ovTitle : Option Bytes := none
  ovSection : Option Bytes := none
  ovDate : Option Bytes := none
  ovSource : Option Bytes := none
  ovManual : Option Bytes := none
deriving Repr, DecidableEq

/-! ### string helpers -/

def joinB (sep : Bytes) : List Bytes → Bytes
  | [] => []
  | [x] => x
  | x :: xs => x ++ sep ++ joinB sep xs

def splitNl : Bytes → Bytes → List Bytes
  | cur, [] => [cur]
  | cur, 10 :: r => cur :: splitNl [] r
  | cur, b :: r => splitNl (cur ++ [b]) r

def stripCr (l : Bytes) : Bytes := if l.getLast? == some 13 then l.dropLast else l

/-- `str::lines`: split at `\n`, a final empty piece is dropped, one trailing `\r` is stripped -/
def lines (s : Bytes) : List Bytes :=
  let ps := splitNl [] s
  let ps := if ps.getLast? == some [] then ps.dropLast else ps
  ps.map stripCr

/-- one step of a scan for Unicode `White_Space` (UTF-8) -/
def wsPrefix : Bytes → Option Bytes
  | b :: r => if b == 32 || (9 ≤ b && b ≤ 13) then some r else
    match b :: r with
    | 0xC2 :: 0x85 :: r => some r | 0xC2 :: 0xA0 :: r => some r
    | 0xE1 :: 0x9A :: 0x80 :: r => some r
    | 0xE2 :: 0x80 :: c :: r => if (0x80 ≤ c && c ≤ 0x8A) || c == 0xA8 || c == 0xA9 || c == 0xAF then some r else none
    | 0xE2 :: 0x81 :: 0x9F :: r => some r
    | 0xE3 :: 0x80 :: 0x80 :: r => some r
    | _ => none
  | [] => none

/-- `line.trim().is_empty()` -/
def allWhitespace : Nat → Bytes → Bool
  | _, [] => true
  | 0, _ => false
  | n+1, s => match wsPrefix s with | some r => allWhitespace n r | none => false

def asciiUpper (s : Bytes) : Bytes := s.map fun b => if 97 ≤ b && b ≤ 122 then b - 32 else b
def asciiLower (s : Bytes) : Bytes := s.map fun b => if 65 ≤ b && b ≤ 90 then b + 32 else b

/-! ### `render.rs` -/

def dn (c : MCmd) : Bytes := c.displayName.getD c.name

def subcommandHeading (c : MCmd) : Bytes := c.subHeading.getD ([83, 85, 66, 67, 79, 77, 77, 65, 78, 68, 83])

def markers (required : Bool) : Bytes × Bytes := if required then ([60], [62]) else ([91], [93])

def aboutLines (c : MCmd) : List Line :=
  [.text [.roman (match c.about.or c.longAbout with
    | some a => dn c ++ [32, 45, 32] ++ a
    | none => dn c)]]

def descriptionLines (c : MCmd) : List Line :=
  match c.longAbout.or c.about with
  | some a => (lines a).map fun l => if allWhitespace (l.length + 1) l then .control ([80, 80]) [] else .text [.roman l]
  | none => []

def valueLabel (a : MArg) : Bytes :=
  match a.valNames with
  | some v => joinB [32] v
  | none => a.id

def synopsisOpt (a : MArg) : List Inline :=
  let (lhs, rhs) := markers a.required
  let core : Option (List Inline) :=
    match a.short, a.long with
    | some s, some l => some [.roman lhs, .bold (45 :: s), .roman [124], .bold ([45, 45] ++ l), .roman rhs]
    | some s, none => some [.roman lhs, .bold (45 :: s ++ [32]), .roman rhs]
    | none, some l => some [.roman lhs, .bold ([45, 45] ++ l), .roman rhs]
    | none, none => none
  match core with
  | none => []
  | some is => is ++ (if a.isCount then [.roman ([46, 46, 46])] else []) ++ [.roman [32]]

def synopsisPos (a : MArg) : List Inline :=
  let (lhs, rhs) := markers a.required
  [.roman lhs, .italic (valueLabel a), .roman rhs, .roman [32]]

def synopsisLine (c : MCmd) : Line :=
  .text ([.bold (c.binName.getD c.name), .roman [32]] ++
    (c.args.filter (!·.hide)).flatMap synopsisOpt ++
    ((c.args.filter (·.isPositional)).filter (!·.hide)).flatMap synopsisPos ++
    (if !c.subs.isEmpty then
      let (lhs, rhs) := markers c.subRequired
      [.roman lhs, .italic (asciiLower (c.subValueName.getD (subcommandHeading c))), .roman rhs]
     else []))

def optionHelp (a : MArg) : Option Bytes :=
  if !a.hideLongHelp && a.longHelp.isSome then a.longHelp
  else if !a.hideShortHelp then a.help else none

def optionDefaults (a : MArg) : Option Bytes :=
  if a.hideDefault || !a.takesValues then none
  else if !a.defaults.isEmpty then some ([91, 100, 101, 102, 97, 117, 108, 116, 58, 32] ++ joinB [44] a.defaults ++ [93]) else none

def optionEnv (a : MArg) : List Line :=
  if a.hideEnv then [] else
  match a.env with
  | some e => [.control ([82, 83]) [], .text [.roman ([77, 97, 121, 32, 97, 108, 115, 111, 32, 98, 101, 32, 115, 112, 101, 99, 105, 102, 105, 101, 100, 32, 119, 105, 116, 104, 32, 116, 104, 101, 32]), .bold e, .roman ([32, 101, 110, 118, 105, 114, 111, 110, 109, 101, 110, 116, 32, 118, 97, 114, 105, 97, 98, 108, 101, 46, 32])],
               .control ([82, 69]) []]
  | none => []

def visiblePvs (a : MArg) : List MPV := a.pvs.filter (!·.hide)

def possibleLines (a : MArg) (helpWritten : Bool) : List Line :=
  if a.hidePV then [] else
  let ps := visiblePvs a
  if ps.isEmpty then [] else
  let withHelp := ps.any (·.help.isSome)
  (if helpWritten then [.text [.lineBreak]] else []) ++
  (if withHelp then
    [.text [.lineBreak, .italic ([80, 111, 115, 115, 105, 98, 108, 101, 32, 118, 97, 108, 117, 101, 115, 58])], .control ([82, 83]) [[49, 52]]] ++
    ps.flatMap (fun p => [.control ([73, 80]) [[92, 40, 98, 117], [50]],
      .text [.roman (match p.help with | some h => p.name ++ [58, 32] ++ h | none => p.name)]]) ++
    [.control ([82, 69]) []]
   else
    [.text [.lineBreak, .roman [91], .italic ([112, 111, 115, 115, 105, 98, 108, 101, 32, 118, 97, 108, 117, 101, 115, 58, 32]), .roman (joinB ([44, 32]) (ps.map (·.name))), .roman [93]]])

def optionLines (a : MArg) : List Line :=
  let header : List Inline :=
    (match a.short, a.long with
     | some s, some l => [.bold (45 :: s), .roman ([44, 32]), .bold ([45, 45] ++ l)]
     | some s, none => [.bold (45 :: s)]
     | none, some l => [.bold ([45, 45] ++ l)]
     | none, none => []) ++
    (if a.takesValues then (match a.valNames with | some v => [.roman [61], .italic (joinB [32] v)] | none => []) else []) ++
    (match optionDefaults a with | some d => [.roman [32], .roman d] | none => [])
  let help := optionHelp a
  [.control ([84, 80]) [], .text header, .text (match help with | some h => [.roman h] | none => [])] ++
    possibleLines a help.isSome ++ optionEnv a

def positionalLines (a : MArg) : List Line :=
  let (lhs, rhs) := markers a.required
  let header : List Inline := [.roman lhs, .italic (valueLabel a), .roman rhs] ++
    (match optionDefaults a with | some d => [.roman ([32] ++ d)] | none => [])
  let help := optionHelp a
  [.control ([84, 80]) [], .text header, .text (match help with | some h => [.roman h] | none => [])] ++
    optionEnv a ++ possibleLines a help.isSome

/-- `render::options` -/
def optionsLines (items : List MArg) : List Line :=
  (items.filter (!·.isPositional)).flatMap optionLines ++ (items.filter (·.isPositional)).flatMap positionalLines

/-- a control-line argument ends at the end of the line: newlines become spaces -/
def controlArg (s : Bytes) : Bytes := s.map fun b => if b == 10 then 32 else b

def headings (args : List MArg) : List Bytes :=
  (args.filterMap (·.heading)).foldl (fun acc h => if acc.contains h then acc else acc ++ [h]) []

/-- `_render_options_section` -/
def optionsSection (c : MCmd) : List Line :=
  let vis := c.args.filter (!·.hide)
  let plain := vis.filter (·.heading.isNone)
  (if plain.isEmpty then [] else .control ([83, 72]) [[79, 80, 84, 73, 79, 78, 83]] :: optionsLines plain) ++
  (headings vis).flatMap fun h =>
    .control ([83, 72]) [controlArg (asciiUpper h)] :: optionsLines (vis.filter (·.heading == some h))

def subcommandsSection (c : MCmd) (sectionNo : Bytes) : List Line :=
  .control ([83, 72]) [controlArg (subcommandHeading c)] ::
  (c.subs.filter (!·.hide)).flatMap fun s =>
    [.control ([84, 80]) [], .text [.roman (dn c ++ [45] ++ s.name ++ [40] ++ sectionNo ++ [41])]] ++
    (match s.about with | some a => (lines a).map fun l => .text [.roman l] | none => [])

def extraSection (c : MCmd) : List Line :=
  match c.afterLongHelp.or c.afterHelp with
  | some a => .control ([83, 72]) [[69, 88, 84, 82, 65]] :: (lines a).map fun l => .text [.roman l]
  | none => []

/-- `app_has_version` guards the section; `render::version` unwraps `long_version.or(version)` -/
def versionSection (c : MCmd) : Option (List Line) :=
  if (c.version.or c.longVersion).isSome then
    match c.longVersion.or c.version with
    | some v => some [.control ([83, 72]) [[86, 69, 82, 83, 73, 79, 78]], .text [.roman (118 :: v)]]
    | none => none        -- the `unwrap` would panic
  else some []

def authorsSection (c : MCmd) : List Line :=
  match c.author with
  | some a => [.control ([83, 72]) [[65, 85, 84, 72, 79, 82, 83]], .text [.roman a]]
  | none => []

/-- `Man::new(cmd).render()`; `none` = panic -/
def manLines (c : MCmd) : Option (List Line) :=
  let sectionNo := c.ovSection.getD [49]
  let title := c.ovTitle.getD (dn c)
  let source := c.ovSource.getD (c.name ++ [32] ++ c.version.getD [])
  match versionSection c with
  | none => none
  | some ver =>
    some (
      [.control ([84, 72]) [controlArg title, controlArg sectionNo, controlArg (c.ovDate.getD []), controlArg source, controlArg (c.ovManual.getD [])],
       .control ([83, 72]) [[78, 65, 77, 69]]] ++ aboutLines c ++
      [.control ([83, 72]) [[83, 89, 78, 79, 80, 83, 73, 83]], synopsisLine c,
       .control ([83, 72]) [[68, 69, 83, 67, 82, 73, 80, 84, 73, 79, 78]]] ++ descriptionLines c ++
      (if c.args.any (!·.hide) then optionsSection c else []) ++
      (if c.subs.any (!·.hide) then subcommandsSection c sectionNo else []) ++
      extraSection c ++ ver ++ authorsSection c)

def manPage (c : MCmd) : Option Bytes := (manLines c).map Roff.render

end Man
end Clap
